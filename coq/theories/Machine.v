(** * Small-step semantics: one shared-memory access (or one call of the wrapped iterator) per step.

    Model file: definitions only, no proofs.

    [step e c t] executes exactly one scheduling point of thread [t]: either the call point that
    starts its next operation, or one access to the shared state, together with all the thread-local
    computation that follows it up to the next scheduling point (exactly what the real thread does
    between two callbacks of the instrumentation).  The access sequences are those of the source
    (DESIGN.md, Appendix A, as amended by the fix: commits). *)
From OCI Require Export Core.
From OCI.gen Require Export Orderings.

(** ** thread-local state *)

(** how a pull was requested; [k] = number of elements the caller takes from the chunk *)
Inductive pmode := MSingle (v : nvar) | MChunk (k : N) | MBuf (k : N).

(** who asked for the pull: the client directly, or the loop of for_each / enumerate_for_each / fold *)
Inductive ctx := CTop | CLoop (l : loopk) (crash : option N).

Record req := { q_n : N; q_mode : pmode; q_ctx : ctx }.

Inductive pc :=
| PIdle
| PRes (q : req)                          (* about to fetch_add the position (reserved) counter *)
| PChkF (q : req) (b : N)                 (* KIter: about to load the completed flag *)
| PLdY (q : req) (b : N)                  (* KIter: about to load the yielded counter *)
| PChkT (q : req) (b : N)                 (* KIter: it is the thread's turn (b = yielded): about to load the completed flag once more *)
| PSrc (q : req) (b : N) (got : list N)   (* KIter: about to call the wrapped next(); positions obtained so far, latest first *)
| PSetF (q : req) (b : N) (got : list N)  (* KIter: about to store completed := true (saw None) *)
| PPub (q : req) (b : N) (got : list N)   (* KIter: about to fetch_add the yielded counter *)
| PUnw (q : req) (b : N) (got : list N)   (* KIter: unwinding from a panic of the wrapped iterator: about to store completed := true *)
| PSkip                                   (* about to perform the access of skip_to_end *)
| PLen (hm : bool)                        (* about to perform the first access of try_get_len / has_more *)
| PLen2 (hm : bool).                      (* KIter, exact hint: about to load the reserved counter *)

(** the thread's buffered iterator: chunk size and, for KIter, the slots of its Vec<Option<T>> *)
Record bufst := { bf_c : N; bf_slots : list (option N) }.

Record tstate := {
  t_pc   : pc;
  t_todo : list op;
  t_buf  : option bufst;
  t_acc  : list run                       (* closure invocations of the running loop operation, latest first *)
}.

Record shared := {
  s_c   : N;       (* position counter / reserved counter *)
  s_y   : N;       (* yielded counter (KIter) *)
  s_f   : bool;    (* completed flag (KIter) *)
  s_cur : N;       (* number of elements the wrapped iterator has yielded so far (KIter) *)
  s_calls : N      (* number of calls of the wrapped iterator's next() so far (KIter) *)
}.

Record cfg := {
  c_sh     : shared;
  c_pool   : tid -> tstate;
  c_trace  : list event;     (* latest first *)
  c_labels : list label      (* latest first *)
}.

Definition upd {A} (f : tid -> A) (t : tid) (a : A) : tid -> A :=
  fun u => if Nat.eqb u t then a else f u.

(** ** helpers on runs and drops *)

Fixpoint runs_of (i : N) (vs : list N) : list run :=
  match vs with
  | [] => []
  | v :: tl =>
      match runs_of (i + 1) tl with
      | r :: rs =>
          if r_val r =? v + 1
          then mk_run (Some i) v (r_cnt r + 1) :: rs
          else mk_run (Some i) v 1 :: r :: rs
      | [] => [mk_run (Some i) v 1]
      end
  end.

Definition drops_of_list (e : env) (vs : list N) : list drops :=
  if e_owning e then map (fun v => {| d_lo := pos_of e v; d_cnt := 1 |}) vs else [].

Definition drops_of_run (e : env) (v0 cnt : N) : list drops :=
  if e_owning e && (0 <? cnt) then [{| d_lo := pos_of e v0; d_cnt := cnt |}] else [].

Definition strip_idx (r : run) : run := mk_run None (r_val r) (r_cnt r).

(** a finished pull: the end, or the delivered elements (begin index, values, as runs and as a count) *)
Inductive pullres :=
| PREnd
| PRGot (b : N) (rs : list run) (cnt : N).

(** ** local computations of the known-size kinds (after the fetch_add returned [b]) *)

Definition reports_idx (v : nvar) : bool :=
  match v with NIdVal | NIdsValues => true | _ => false end.

(** increment of the position counter for a request of [n] elements *)
Definition k_incr (e : env) (q : req) : N :=
  match q_mode q with
  | MSingle _ => 1                         (* fetch_one: fetch_and_increment *)
  | _ => N.min (q_n q) (e_len e)           (* progress_and_get_begin_idx *)
  end.

(** get(b) *)
Definition k_get (e : env) (b : N) : outcome pullres :=
  if b <? e_len e then
    match e_kind e with
    | KRange => do v <- add_u (e_mode e) (e_start e) b; Ok (PRGot b [mk_run (Some b) v 1] 1)
    | _ => Ok (PRGot b [mk_run (Some b) b 1] 1)
    end
  else Ok PREnd.

(** fetch_n(n) after progress returned: [b] is the value the counter had *)
Definition k_fetch_n (e : env) (n b : N) : outcome pullres :=
  let len := e_len e in
  let b' := if b <? len then b else len in
  match e_kind e with
  | KRange =>
      do bv <- add_u (e_mode e) b' (e_start e);
      let ev := if bv <? e_end e then N.min (sat_add bv n) (e_end e) else bv in
      do e' <- sub_u (e_mode e) ev (e_start e);
      if b' =? e' then Ok PREnd
      else do cnt <- sub_u (e_mode e) ev bv; Ok (PRGot b' [mk_run (Some b') bv cnt] cnt)
  | KSlice =>
      let e' := N.max (N.min (sat_add b' n) len) b' in
      if b' =? e' then Ok PREnd
      else Ok (PRGot b' [mk_run (Some b') b' (e' - b')] (e' - b'))
  | _ => (* KVec, KArray: the end is computed a second time in take_slice *)
      let e' := N.max (N.min (sat_add b' n) len) b' in
      if b' =? e' then Ok PREnd
      else
        let e2 := N.min (sat_add b' n) len in
        do cnt <- sub_u (e_mode e) e2 b';
        Ok (PRGot b' [mk_run (Some b') b' cnt] cnt)
  end.

(** BufferedIter::next after progress returned [b] *)
Definition k_buf_pull (e : env) (c b : N) : outcome pullres :=
  let len := e_len e in
  if b <? len then
    match e_kind e with
    | KRange =>
        do bv <- add_u (e_mode e) b (e_start e);
        if bv <? e_end e then
          let ev := N.min (sat_add bv c) (e_end e) in
          do cnt <- sub_u (e_mode e) ev bv;
          Ok (PRGot b [mk_run (Some b) bv cnt] cnt)
        else Ok PREnd
    | KSlice =>
        let e' := N.max (N.min (sat_add b c) len) b in
        Ok (PRGot b [mk_run (Some b) b (e' - b)] (e' - b))
    | _ =>
        let e2 := N.min (sat_add b c) len in
        do cnt <- sub_u (e_mode e) e2 b;
        Ok (PRGot b [mk_run (Some b) b cnt] cnt)
    end
  else Ok PREnd.

Definition k_pull (e : env) (q : req) (b : N) : outcome pullres :=
  match q_mode q with
  | MSingle _ => k_get e b
  | MChunk _ => k_fetch_n e (q_n q) b
  | MBuf _ => k_buf_pull e (q_n q) b
  end.

(** try_get_len from the loaded counter value *)
Definition k_len (e : env) (c : N) : N := if c <? e_len e then e_len e - c else 0.

Definition more_of (o : option N) : hasmore :=
  match o with None => HMaybe | Some 0 => HNo | Some n => HYes n end.

Definition len_res (hm : bool) (o : option N) : res := if hm then RMore (more_of o) else RLen o.

(** ** delivering a finished pull to whoever asked for it *)

Fixpoint total_cnt (rs : list run) : N :=
  match rs with [] => 0 | r :: tl => r_cnt r + total_cnt tl end.

(** the elements of [rs] from offset [k] on, as drops *)
Fixpoint drops_after (e : env) (k : N) (rs : list run) : list drops :=
  match rs with
  | [] => []
  | r :: tl =>
      if r_cnt r <=? k then drops_after e (k - r_cnt r) tl
      else drops_of_run e (r_val r + k) (r_cnt r - k) ++ drops_after e 0 tl
  end.

(** the first [k] elements of [rs] *)
Fixpoint runs_take (k : N) (rs : list run) : list run :=
  match rs with
  | [] => []
  | r :: tl =>
      if k =? 0 then []
      else if r_cnt r <=? k then r :: runs_take (k - r_cnt r) tl
      else [mk_run (r_idx r) (r_val r) k]
  end.

(** writing [vs] into the first slots of the buffer; returns the new slots and the positions of the
    stale elements that were overwritten (dropped) *)
Fixpoint write_slots (slots : list (option N)) (vs : list N) : list (option N) * list N :=
  match vs, slots with
  | v :: vtl, s :: stl =>
      let '(sl, dr) := write_slots stl vtl in
      (Some v :: sl, match s with Some old => old :: dr | None => dr end)
  | _, _ => (slots, [])
  end.

(** the caller takes the first [k] of the filled slots *)
Fixpoint take_slots (k : nat) (slots : list (option N)) : list (option N) :=
  match k, slots with
  | S k', _ :: stl => None :: take_slots k' stl
  | _, _ => slots
  end.

Fixpoint slot_vals (slots : list (option N)) : list N :=
  match slots with
  | [] => []
  | Some v :: tl => v :: slot_vals tl
  | None :: tl => slot_vals tl
  end.

Fixpoint run_vals (r_v : N) (cnt : nat) : list N :=
  match cnt with O => [] | S c => r_v :: run_vals (r_v + 1) c end.

Definition runs_vals (rs : list run) : list N :=
  flat_map (fun r => run_vals (r_val r) (N.to_nat (r_cnt r))) rs.

(** invoking the closure of a loop on the elements of [rs]: returns the invocations performed
    (including a panicking one) and whether the closure panicked, and the number of elements consumed *)
Definition loop_invoke (l : loopk) (crash : option N) (done : N) (rs : list run) (cnt : N)
  : list run * option N :=
  let shape := match l with LEnum => fun r => r | _ => strip_idx end in
  match crash with
  | Some k =>
      if (done <=? k) && (k <? done + cnt)
      then (map shape (runs_take (k - done + 1) rs), Some (k - done + 1))
      else (map shape rs, None)
  | None => (map shape rs, None)
  end.

Definition set_pc (ts : tstate) (p : pc) : tstate :=
  {| t_pc := p; t_todo := t_todo ts; t_buf := t_buf ts; t_acc := t_acc ts |}.

Definition chunk_res (b : N) (rs : list run) (cnt took : N) : res :=
  RChunk b (runs_take took rs) cnt took (cnt - took).

(** a run, or nothing when it is empty *)
Definition nz_run (oi : option N) (v c : N) : list run := if c =? 0 then [] else [mk_run oi v c].

(** maximal compression of a list of runs: adjacent runs that continue each other are merged.  The
    machine reports the runs as they were delivered; the driver prints them compressed, which is the
    form in which the instrumented crate reports them. *)
Definition continues (a b : run) : bool :=
  (r_val b =? r_val a + r_cnt a) &&
  match r_idx a, r_idx b with
  | Some i, Some j => j =? i + r_cnt a
  | None, None => true
  | _, _ => false
  end.

Fixpoint merge_runs (rs : list run) : list run :=
  match rs with
  | [] => []
  | a :: tl =>
      match merge_runs tl with
      | b :: tl' =>
          if r_cnt a =? 0 then b :: tl'
          else if continues a b then mk_run (r_idx a) (r_val a) (r_cnt a + r_cnt b) :: tl'
          else a :: b :: tl'
      | [] => if r_cnt a =? 0 then [] else [a]
      end
  end.

Definition one_res (rs : list run) : res :=
  match rs with r :: _ => ROne r | [] => RNone end.

(** a direct pull that obtained the elements [rs] ([cnt] of them, from index [b] on): new thread
    state, result, elements destroyed when the caller drops what it did not take *)
Definition deliver_top (e : env) (ts : tstate) (q : req) (b : N) (rs : list run) (cnt : N)
  : tstate * (res * list drops) :=
  let idle := set_pc ts PIdle in
  match q_mode q with
  | MSingle v => (idle, (one_res (if reports_idx v then rs else map strip_idx rs), []))
  | MChunk k =>
      let took := N.min k cnt in
      (idle, (chunk_res b rs cnt took, drops_after e took rs))
  | MBuf k =>
      let took := N.min k cnt in
      match e_kind e, t_buf ts with
      | KIter, Some bf =>
          let '(sl, stale) := write_slots (bf_slots bf) (runs_vals rs) in
          let sl' := take_slots (N.to_nat took) sl in
          ({| t_pc := PIdle; t_todo := t_todo ts;
              t_buf := Some {| bf_c := bf_c bf; bf_slots := sl' |}; t_acc := t_acc ts |},
           (chunk_res b rs cnt took, drops_of_list e stale))
      | _, _ => (idle, (chunk_res b rs cnt took, drops_after e took rs))
      end
  end.

(** a pull of a running loop that obtained the elements [rs]: the closure is invoked on them; the
    loop goes on with its next pull, or returns because the closure panicked *)
Definition deliver_loop (e : env) (ts : tstate) (q : req) (l : loopk) (crash : option N)
           (rs : list run) (cnt : N) : tstate * option (res * list drops) :=
  let done := total_cnt (t_acc ts) in
  let '(inv, pan) := loop_invoke l crash done rs cnt in
  let acc' := rev inv ++ t_acc ts in
  match pan with
  | Some used =>
      ({| t_pc := PIdle; t_todo := t_todo ts; t_buf := t_buf ts; t_acc := [] |},
       Some (RPanic PkUser (rev acc'), drops_after e used rs))
  | None =>
      ({| t_pc := PRes q; t_todo := t_todo ts; t_buf := t_buf ts; t_acc := acc' |}, None)
  end.

(** result of finishing a pull: new thread state, and the return event if the operation returned *)
Definition deliver (e : env) (ts : tstate) (q : req) (pr : outcome pullres)
  : tstate * option (res * list drops) :=
  let idle := set_pc ts PIdle in
  match q_ctx q with
  | CTop =>
      match pr with
      | Panic k => (idle, Some (RPanic k [], []))
      | Ok PREnd => (idle, Some (RNone, []))
      | Ok (PRGot b rs cnt) => let '(ts', rd) := deliver_top e ts q b rs cnt in (ts', Some rd)
      end
  | CLoop l crash =>
      let fin (r : res) (d : list drops) :=
        ({| t_pc := PIdle; t_todo := t_todo ts; t_buf := t_buf ts; t_acc := [] |}, Some (r, d)) in
      match pr with
      | Panic k => fin (RPanic k (rev (t_acc ts))) []
      | Ok PREnd => fin (RLoop (rev (t_acc ts))) []
      | Ok (PRGot b rs cnt) => deliver_loop e ts q l crash rs cnt
      end
  end.

(** ** the step function *)

Definition set_sh (c : cfg) (sh : shared) : cfg :=
  {| c_sh := sh; c_pool := c_pool c; c_trace := c_trace c; c_labels := c_labels c |}.

Definition with_c (sh : shared) (v : N) : shared :=
  {| s_c := v; s_y := s_y sh; s_f := s_f sh; s_cur := s_cur sh; s_calls := s_calls sh |}.
Definition with_y (sh : shared) (v : N) : shared :=
  {| s_c := s_c sh; s_y := v; s_f := s_f sh; s_cur := s_cur sh; s_calls := s_calls sh |}.
Definition with_f (sh : shared) (v : bool) : shared :=
  {| s_c := s_c sh; s_y := s_y sh; s_f := v; s_cur := s_cur sh; s_calls := s_calls sh |}.
Definition with_src (sh : shared) (cur calls : N) : shared :=
  {| s_c := s_c sh; s_y := s_y sh; s_f := s_f sh; s_cur := cur; s_calls := calls |}.

(** commit one step of thread [t]: new shared state, new thread state, label, optional return event *)
Definition commit (c : cfg) (t : tid) (sh : shared) (ts : tstate) (l : label)
           (ev : list event) : cfg :=
  {| c_sh := sh; c_pool := upd (c_pool c) t ts; c_trace := ev ++ c_trace c; c_labels := l :: c_labels c |}.

Definition ret_ev (t : tid) (o : option (res * list drops)) : list event :=
  match o with Some (r, d) => [ERet t r d] | None => [] end.

Definition bN (b : bool) : N := if b then 1 else 0.

(** finishing a pull at a step with label [l] *)
Definition finish (e : env) (c : cfg) (t : tid) (sh : shared) (ts : tstate) (l : label)
           (q : req) (pr : outcome pullres) : cfg :=
  let '(ts', o) := deliver e ts q pr in
  commit c t sh ts' l (ret_ev t o).

Definition stale_drops (e : env) (ts : tstate) : list drops :=
  match t_buf ts with
  | Some bf => drops_of_list e (slot_vals (bf_slots bf))
  | None => []
  end.

Definition empty_slots (e : env) (c : N) : list (option N) :=
  match e_kind e with KIter => repeat None (N.to_nat c) | _ => [] end.

(** the call point: thread [t] starts operation [o]: either the operation has shared-memory accesses
    to perform ([CGo]: the thread moves to the program counter of the first one), or it returns at
    once ([CRet]: new buffered iterator of the thread, result, elements destroyed) *)
Inductive callres :=
| CGo (p : pc)
| CRet (b : option bufst) (r : res) (d : list drops).

Definition call_res (e : env) (ts : tstate) (o : op) : callres :=
  match o with
  | Next v => CGo (PRes {| q_n := 1; q_mode := MSingle v; q_ctx := CTop |})
  | Chunk n k =>
      match e_kind e with
      | KIter => if n =? 0 then CRet (t_buf ts) RNone []
                 else CGo (PRes {| q_n := n; q_mode := MChunk k; q_ctx := CTop |})
      | _ => CGo (PRes {| q_n := n; q_mode := MChunk k; q_ctx := CTop |})
      end
  | BufNew n =>
      if n =? 0 then CRet (t_buf ts) (RPanic PkChunkZero []) []
      else CRet (Some {| bf_c := n; bf_slots := empty_slots e n |}) RUnit (stale_drops e ts)
  | BufNext k =>
      match t_buf ts with
      | Some bf => CGo (PRes {| q_n := bf_c bf; q_mode := MBuf k; q_ctx := CTop |})
      | None => CRet None (RPanic PkAssert []) []
      end
  | BufDrop => CRet None RUnit (stale_drops e ts)
  | Loop l n crash =>
      if n =? 0 then CRet (t_buf ts) (RPanic PkChunkZero []) []
      else if n =? 1 then
        CGo (PRes {| q_n := 1; q_mode := MSingle (match l with LEnum => NIdVal | _ => NVal end);
                     q_ctx := CLoop l crash |})
      else CGo (PRes {| q_n := n; q_mode := MBuf n; q_ctx := CLoop l crash |})
  | Skip => CGo PSkip
  | TryLen => CGo (PLen false)
  | HasMore => CGo (PLen true)
  end.

Definition call (e : env) (c : cfg) (t : tid) (ts : tstate) (o : op) (rest : list op) : cfg :=
  match call_res e ts o with
  | CGo p =>
      commit c t (c_sh c) {| t_pc := p; t_todo := rest; t_buf := t_buf ts; t_acc := [] |} (LCall t) [ECall t o]
  | CRet b r d =>
      commit c t (c_sh c) {| t_pc := PIdle; t_todo := rest; t_buf := b; t_acc := [] |} (LCall t)
             [ERet t r d; ECall t o]
  end.

Definition src_next (e : env) (sh : shared) : option N :=
  if e_gap e (s_calls sh) then None else if s_cur sh <? e_len e then Some (s_cur sh) else None.

Definition crashes_now (e : env) (sh : shared) : bool :=
  match e_crash e with Some k => s_calls sh =? k | None => false end.

Definition pub_incr (q : req) : N := match q_mode q with MSingle _ => 1 | _ => q_n q end.

(** the ordering each atomic operation is performed with: the method of the counter (or the site of the
    completed flag) that the pull calls, as translated from the source into [gen/Orderings.v] *)
Definition single (q : req) : bool := match q_mode q with MSingle _ => true | _ => false end.
Definition o_res (q : req) : ord := if single q then ord_counter_fetch_and_increment else ord_counter_fetch_and_add.
Definition o_chkf (q : req) : ord := if single q then ord_completed_load_get else ord_completed_load_progress.
Definition o_ldy (q : req) : ord := if single q then ord_yielded_read_get else ord_yielded_read_progress.
Definition o_chkt (q : req) : ord := if single q then ord_completed_load_get_turn else ord_completed_load_progress_turn.
Definition o_setf (q : req) : ord := if single q then ord_completed_store_get else ord_completed_store_complete.
Definition o_pub (q : req) : ord := if single q then ord_yielded_publish_single else ord_yielded_publish_chunk.

Definition step (e : env) (c : cfg) (t : tid) : cfg :=
  let ts := c_pool c t in
  let sh := c_sh c in
  match t_pc ts with
  | PIdle =>
      match t_todo ts with
      | [] => c
      | o :: rest => call e c t ts o rest
      end
  | PRes q =>
      let b := s_c sh in
      match e_kind e with
      | KIter =>
          let n := pub_incr q in
          commit c t (with_c sh (wadd b n)) (set_pc ts (PChkF q b)) (LAtom t SC AAdd n b (o_res q)) []
      | _ =>
          let n := k_incr e q in
          finish e c t (with_c sh (wadd b n)) ts (LAtom t SC AAdd n b (o_res q)) q (k_pull e q b)
      end
  | PChkF q b =>
      let l := LAtom t SF ALoad 0 (bN (s_f sh)) (o_chkf q) in
      if s_f sh then finish e c t sh ts l q (Ok PREnd)
      else commit c t sh (set_pc ts (PLdY q b)) l []
  | PLdY q b =>
      let y := s_y sh in
      let l := LAtom t SY ALoad 0 y (o_ldy q) in
      if b =? y then commit c t sh (set_pc ts (PChkT q b)) l []
      else if b <? y then finish e c t sh ts l q (Ok PREnd)
      else commit c t sh (set_pc ts (PChkF q b)) l []
  | PChkT q b =>
      let l := LAtom t SF ALoad 0 (bN (s_f sh)) (o_chkt q) in
      if s_f sh then finish e c t sh ts l q (Ok PREnd)
      else commit c t sh (set_pc ts (PSrc q b [])) l []
  | PSrc q b got =>
      if crashes_now e sh then
        commit c t (with_src sh (s_cur sh) (s_calls sh + 1)) (set_pc ts (PUnw q b got)) (LSrcPanic t) []
      else
        let r := src_next e sh in
        let sh' := with_src sh (match r with Some _ => s_cur sh + 1 | None => s_cur sh end) (s_calls sh + 1) in
        let l := LSrc t r in
        match q_mode q, r with
        | MSingle _, Some p => commit c t sh' (set_pc ts (PPub q b [p])) l []
        | MSingle _, None => commit c t sh' (set_pc ts (PSetF q b [])) l []
        | _, Some p =>
            let got' := p :: got in
            if N.of_nat (length got') =? q_n q
            then commit c t sh' (set_pc ts (PPub q b got')) l []
            else commit c t sh' (set_pc ts (PSrc q b got')) l []
        | MChunk _, None => commit c t sh' (set_pc ts (PSetF q b got)) l []
        | MBuf _, None => commit c t sh' (set_pc ts (PSetF q b got)) l []
        end
  | PSetF q b got =>
      let l := LAtom t SF AStore 1 0 (o_setf q) in
      let sh' := with_f sh true in
      match q_mode q with
      | MSingle _ => finish e c t sh' ts l q (Ok PREnd)
      | _ => commit c t sh' (set_pc ts (PPub q b got)) l []
      end
  | PPub q b got =>
      let old := s_y sh in
      let n := pub_incr q in
      let l := LAtom t SY AAdd n old (o_pub q) in
      let sh' := with_y sh (wadd old n) in
      let vs := rev got in
      match q_mode q with
      | MSingle _ => finish e c t sh' ts l q (Ok (PRGot b (runs_of b vs) (N.of_nat (length vs))))
      | _ =>
          if old =? b then
            match vs with
            | [] => finish e c t sh' ts l q (Ok PREnd)
            | _ => finish e c t sh' ts l q (Ok (PRGot b (runs_of b vs) (N.of_nat (length vs))))
            end
          else finish e c t sh' ts l q (Panic PkAssert)
      end
  | PUnw q _ got =>
      let l := LAtom t SF AStore 1 0 ord_completed_store_unwind in
      let sh' := with_f sh true in
      let vs := rev got in
      let acc := rev (t_acc ts) in
      match q_ctx q, q_mode q, e_kind e, t_buf ts with
      | CTop, MBuf _, KIter, Some bf =>
          let '(sl, stale) := write_slots (bf_slots bf) vs in
          commit c t sh' {| t_pc := PIdle; t_todo := t_todo ts;
                            t_buf := Some {| bf_c := bf_c bf; bf_slots := sl |}; t_acc := [] |} l
                 [ERet t (RPanic PkSource acc) (drops_of_list e stale)]
      | _, _, _, _ =>
          commit c t sh' {| t_pc := PIdle; t_todo := t_todo ts; t_buf := t_buf ts; t_acc := [] |} l
                 [ERet t (RPanic PkSource acc) (drops_of_list e vs)]
      end
  | PSkip =>
      let idle := set_pc ts PIdle in
      match e_kind e with
      | KSlice | KRange =>
          commit c t (with_c sh (e_len e)) idle (LAtom t SC AStore (e_len e) 0 ord_counter_store) [ERet t RUnit []]
      | KIter =>
          commit c t (with_f sh true) idle (LAtom t SF AStore 1 0 ord_completed_store_early_exit) [ERet t RUnit []]
      | _ =>
          let b := s_c sh in
          let n := N.min (e_len e) (e_len e) in
          let l := LAtom t SC AAdd n b ord_counter_fetch_and_add in
          match k_fetch_n e (e_len e) b with
          | Ok PREnd => commit c t (with_c sh (wadd b n)) idle l [ERet t RUnit []]
          | Ok (PRGot _ rs _) => commit c t (with_c sh (wadd b n)) idle l [ERet t RUnit (drops_after e 0 rs)]
          | Panic k => commit c t (with_c sh (wadd b n)) idle l [ERet t (RPanic k []) []]
          end
      end
  | PLen hm =>
      let idle := set_pc ts PIdle in
      match e_kind e with
      | KIter =>
          let l := LAtom t SF ALoad 0 (bN (s_f sh)) ord_completed_load_try_get_len in
          if s_f sh then commit c t sh idle l [ERet t (len_res hm (Some 0)) []]
          else match e_hint e with
               | HExact => commit c t sh (set_pc ts (PLen2 hm)) l []
               | _ => commit c t sh idle l [ERet t (len_res hm None) []]
               end
      | _ =>
          commit c t sh idle (LAtom t SC ALoad 0 (s_c sh) ord_counter_current) [ERet t (len_res hm (Some (k_len e (s_c sh)))) []]
      end
  | PLen2 hm =>
      commit c t sh (set_pc ts PIdle) (LAtom t SC ALoad 0 (s_c sh) ord_counter_current)
             [ERet t (len_res hm (Some (k_len e (s_c sh)))) []]
  end.

Definition exec (e : env) (c : cfg) (sched : list tid) : cfg := fold_left (step e) sched c.

Definition init_ts (prog : list op) : tstate :=
  {| t_pc := PIdle; t_todo := prog; t_buf := None; t_acc := [] |}.

Definition init (progs : tid -> list op) : cfg :=
  {| c_sh := {| s_c := 0; s_y := 0; s_f := false; s_cur := 0; s_calls := 0 |};
     c_pool := fun t => init_ts (progs t);
     c_trace := []; c_labels := [] |}.

(** ** end of life, executed by the exclusive owner [t] once every thread has finished *)

Definition seq_res (e : env) (lo cnt k : N) : res * list drops :=
  let took := N.min k cnt in
  (RSeq (nz_run None (val_of e lo) took) took,
   drops_of_run e (val_of e (lo + took)) (cnt - took)).

Definition final_step (e : env) (c : cfg) (t : tid) (f : final) : cfg :=
  let sh := c_sh c in
  let len := e_len e in
  let cv := s_c sh in
  let ldc := LAtom t SC ALoad 0 cv ord_counter_current in
  let fin (sh' : shared) (ls : list label) (r : res) (d : list drops) :=
    {| c_sh := sh'; c_pool := c_pool c; c_trace := EFinal f r d :: c_trace c;
       c_labels := rev ls ++ c_labels c |} in
  match f, e_kind e with
  | FDrop, (KSlice | KRange) => fin sh [] RUnit []
  | FDrop, (KVec | KArray) =>
      fin sh [ldc] RUnit (if cv <? len then drops_of_run e cv (len - cv) else [])
  | FDrop, KIter =>
      fin sh [] RUnit (drops_of_run e (s_cur sh) (len - s_cur sh))
  | FIntoSeq k, KSlice =>
      let m := N.min cv len in
      let '(r, d) := seq_res e m (len - m) k in fin sh [ldc] r []
  | FIntoSeq k, KRange =>
      let m := N.min cv len in
      match add_u (e_mode e) (e_start e) m with
      | Ok s' =>
          let cnt := if s' <? e_end e then e_end e - s' else 0 in
          fin sh [ldc] (RSeq (nz_run None s' (N.min k cnt)) (N.min k cnt)) []
      | Panic pk => fin sh [ldc] (RPanic pk []) []
      end
  | FIntoSeq k, KVec =>
      let m := N.min cv len in
      let '(r, d) := seq_res e m (len - m) k in fin sh [ldc; ldc] r d
  | FIntoSeq k, KArray =>
      let m := N.min cv len in
      let '(r, d) := seq_res e m (len - m) k in
      fin (with_c sh len) [ldc; LAtom t SC AStore len 0 ord_counter_store; LAtom t SC ALoad 0 len ord_counter_current] r d
  | FIntoSeq k, KIter =>
      let m := N.min (s_cur sh) len in
      let '(r, d) := seq_res e m (len - m) k in fin sh [] r d
  end.
