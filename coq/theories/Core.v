(** * Vocabulary of the model: sources, operations, results, events, labels.

    Model file: definitions only, no proofs.

    Elements are identified with their *source position* [p] (0-based).  The crate is parametric in
    the element type and never inspects a value, so the value delivered for position [p] is written
    [p] for every kind except ranges, where it is the number [start + p] as the crate computes it. *)
From OCI Require Export Arith Ord.

Definition tid := nat.

Inductive kind :=
| KSlice      (* ConIterOfSlice: also con_iter() of a vector / an array *)
| KVec        (* ConIterOfVec: into_con_iter() of a vector *)
| KArray      (* ConIterOfArray: into_con_iter() of an array *)
| KRange      (* ConIterOfRange<usize> *)
| KIter.      (* ConIterOfIter: into_con_iter() of an arbitrary Iterator *)

Inductive adaptor := ANone | ACloned | ACopied.

(** size hint of the wrapped iterator: exact, bounded but inexact, unbounded *)
Inductive hint := HExact | HInexact | HNone.

Record env := {
  e_kind    : kind;
  e_adaptor : adaptor;       (* cloned() / copied() on top (reference-yielding kinds only) *)
  e_len     : N;             (* number of elements of the source; KRange: end.saturating_sub(start) *)
  e_start   : N;             (* KRange only *)
  e_end     : N;             (* KRange only *)
  e_hint    : hint;          (* KIter only *)
  e_owning  : bool;          (* elements are owned by the iterator and have a destructor (KVec, KArray, owning KIter) *)
  e_mode    : mode;
  e_crash   : option N;      (* KIter: the k-th call (0-based) of the wrapped iterator's next() panics *)
  e_gap     : N -> bool      (* KIter: the k-th call (0-based) of the wrapped iterator's next() answers None
                                although elements may remain (an iterator that is not fused) *)
}.

(** the wrapped iterator is fused: it answers None only when it is exhausted *)
Definition fused (e : env) : Prop := forall k, e_gap e k = false.

Definition is_known (k : kind) : bool := match k with KIter => false | _ => true end.

(** the four spellings of a single pull *)
Inductive nvar := NIdVal | NVal | NValues | NIdsValues.

Inductive loopk := LForEach | LEnum | LFold.

Inductive op :=
| Next (v : nvar)
| Chunk (n k : N)            (* next_chunk(n); take k of its elements; drop the chunk *)
| BufNew (c : N)             (* buffered_iter(c), kept by the thread (replaces a previous one) *)
| BufNext (k : N)            (* next() on the thread's buffered iterator; take k elements of the chunk *)
| BufDrop                    (* drop the thread's buffered iterator *)
| Loop (l : loopk) (c : N) (crash : option N)
                             (* for_each / enumerate_for_each / fold with chunk size c; the closure
                                panics at its crash-th invocation (0-based), if any *)
| Skip
| TryLen
| HasMore.

(** end of life of the iterator, executed by its exclusive owner after every thread has finished *)
Inductive final :=
| FDrop
| FIntoSeq (k : N).          (* into_seq_iter(); take k elements of the remainder; drop it *)

(** a run of [r_cnt] consecutive deliveries: indices [r_idx, r_idx + r_cnt) (when reported) with the
    values [r_val, r_val + r_cnt) *)
Record run := { r_idx : option N; r_val : N; r_cnt : N }.

Inductive hasmore := HYes (n : N) | HMaybe | HNo.

Inductive res :=
| RNone                                      (* a pull reported the end *)
| ROne (r : run)                             (* a single pull delivered one element *)
| RChunk (b : N) (rs : list run) (ann0 took ann1 : N)
                                             (* a chunk: begin index, the elements the caller took (as maximal runs),
                                                announced len() before, number taken, announced len() after *)
| RLoop (rs : list run)                      (* for_each family returned; the closure invocations, in order *)
| RLen (o : option N)
| RMore (h : hasmore)
| RUnit
| RSeq (rs : list run) (took : N)            (* into_seq_iter: the elements the caller took from the remainder (r_idx = None) *)
| RPanic (k : pkind) (rs : list run).        (* the call panicked; closure invocations completed before *)

(** an interval of positions [d_lo, d_lo + d_cnt) destroyed by the iterator machinery *)
Record drops := { d_lo : N; d_cnt : N }.

Inductive event :=
| ECall (t : tid) (o : op)
| ERet (t : tid) (r : res) (d : list drops)
| EFinal (f : final) (r : res) (d : list drops).

(** one scheduling point, as both the model and the instrumented crate report it *)
Inductive site := SC | SY | SF.             (* position/reserved counter, yielded counter, completed flag *)
Inductive akind := ALoad | AStore | AAdd.

Inductive label :=
| LCall (t : tid)
| LAtom (t : tid) (s : site) (k : akind) (arg ret : N) (o : ord)
| LSrc (t : tid) (r : option N)              (* one call of the wrapped iterator's next(): the position it yielded *)
| LSrcPanic (t : tid).

(** value delivered for position [p] (never overflows for [p < e_len]) *)
Definition val_of (e : env) (p : N) : N :=
  match e_kind e with KRange => e_start e + p | _ => p end.

(** position of a delivered value *)
Definition pos_of (e : env) (v : N) : N :=
  match e_kind e with KRange => v - e_start e | _ => v end.

Definition mk_run (oi : option N) (v c : N) : run := {| r_idx := oi; r_val := v; r_cnt := c |}.
