(** Property C03 -- statements only.  Every theorem is closed by [exact] of a lemma of the development and
    followed by [Print Assumptions]. *)
From Coq Require Import ZArith.
From OCI Require Import Machine Checkers.
From OCI.proofs Require Import ArithOk Trace InvKnown ChkKnown IterBase ChkIter ChkAll.
From OCI.proofs Require Import GapFree.
Open Scope N_scope.

Check all_C03 : forall e, src_env e -> fused e -> forall progs, wf_progs progs -> forall sched,
  nowrap (c_labels (exec e (init progs) sched)) ->
  chk_C03 e (c_trace (exec e (init progs) sched)) = true.
Theorem c03_chunk_contract : forall e, src_env e -> fused e -> forall progs, wf_progs progs -> forall sched,
  nowrap (c_labels (exec e (init progs) sched)) ->
  chk_C03 e (c_trace (exec e (init progs) sched)) = true.
Proof. exact all_C03. Qed.
Print Assumptions c03_chunk_contract.

(** a wrapped iterator that is not fused: the chunk contract holds on every run on which the wrapped next() has not yet answered None although elements remain; after such an answer a chunk may be short in the middle of the source and carry an index that is not the position of its first element ([Examples.gap_breaks_the_mixed_accounting]) *)
Theorem c03_chunk_contract_until_first_gap : forall e, iter_env e -> forall progs, wf_progs progs -> forall sched,
  nowrap (c_labels (exec e (init progs) sched)) ->
  gap_free e (s_calls (c_sh (exec e (init progs) sched))) ->
  check_prop 3 e (c_trace (exec e (init progs) sched)) (c_labels (exec e (init progs) sched)) = true.
Proof. exact iter_C03_until_gap. Qed.
Print Assumptions c03_chunk_contract_until_first_gap.
