(** Property C03 -- statements only.  Every theorem is closed by [exact] of a lemma of the development and
    followed by [Print Assumptions]. *)
From Coq Require Import ZArith.
From OCI Require Import Machine Checkers.
From OCI.proofs Require Import ArithOk Trace InvKnown ChkKnown IterBase ChkIter ChkAll.
From OCI.proofs Require Import GapFree.
Open Scope N_scope.

Check all_C03 : forall e, src_env e -> fused e -> forall progs, wf_progs progs -> forall sched,
  nowrap (c_labels (exec e (init progs) sched)) ->
  chk_C03 e (c_trace (exec e (init progs) sched)) = true.
Theorem c03_chunk_contract : forall e, src_env e -> fused e -> forall progs, wf_progs progs -> forall sched,
  nowrap (c_labels (exec e (init progs) sched)) ->
  chk_C03 e (c_trace (exec e (init progs) sched)) = true.
Proof. exact all_C03. Qed.
Print Assumptions c03_chunk_contract.

(** a wrapped iterator that is not fused: the chunk contract holds on every run on which the wrapped next() has not yet answered None although elements remain; after such an answer a chunk may be short in the middle of the source ([Examples.gap_hypotheses_hold]); its index is the position of its first element all the same, and the contract holds with the length of the source replaced by the number of elements yielded before that answer: [c03_chunk_contract_any_iterator] below *)
Theorem c03_chunk_contract_until_first_gap : forall e, iter_env e -> forall progs, wf_progs progs -> forall sched,
  nowrap (c_labels (exec e (init progs) sched)) ->
  gap_free e (s_calls (c_sh (exec e (init progs) sched))) ->
  check_prop 3 e (c_trace (exec e (init progs) sched)) (c_labels (exec e (init progs) sched)) = true.
Proof. exact iter_C03_until_gap. Qed.
Print Assumptions c03_chunk_contract_until_first_gap.

(** ** after the repair of the waiting loop (a thread that finds its ticket at the yielded counter looks at
    the completed flag once more before it uses the wrapped iterator): nothing is delivered after the first
    None of the wrapped iterator, premature or not ([C07.c07_no_call_after_none]) *)
From OCI.proofs Require Import AfterNone.

(** a wrapped iterator whose first premature None is the answer to call number [g]: the chunk contract on
    EVERY run, a chunk being short only at the end of what the wrapped iterator yields before that call
    ([cut e g]: [e] with [e_len := min (e_len e) g], fused) *)
Theorem c03_chunk_contract_any_iterator : forall e, iter_env e -> forall g, first_gap e g -> forall progs, wf_progs progs -> forall sched,
  nowrap (c_labels (exec e (init progs) sched)) ->
  check_prop 3 (cut e g) (c_trace (exec e (init progs) sched)) (c_labels (exec e (init progs) sched)) = true.
Proof. exact iter_C03_after_gap. Qed.
Print Assumptions c03_chunk_contract_any_iterator.
