(** Property C14, clause (a) -- statements only.  Every theorem is closed by [exact] of a lemma of
    proofs/BoundsOk.v and followed by [Print Assumptions].

    [declared_*], [ctor_*], [impl_*] and the lists [all_*] come from gen/Bounds.v, which tools/extract_bounds.py
    generates from the .rs files of the crate on every run; [required_*] is derived in proofs/BoundsOk.v from the
    way each type is used across threads.  Positive theorems: the declared bounds entail the required ones.
    Theorems whose name ends in [_refuted]: they do NOT for the current source (known finding F10: nothing is
    demanded of the wrapped iterator type of ConIterOfIter) -- the statement is the refutation, with a witness.
    The borrow/lifetime clauses of C14 are not decided here (no model of the borrow checker): they are checked by
    the compile probes under probes/ (tools/c14.py), translation validation only. *)
From Coq Require Import Bool List String.
From OCI.gen Require Import Bounds.
From OCI.proofs Require Import BoundsOk.
Import ListNotations.
Open Scope string_scope.
Open Scope bool_scope.

Theorem c14_every_unsafe_impl_is_covered :
  all_impls =
  [("Cloned", "Send"); ("Cloned", "Sync");
   ("ConIterOfArray", "Send"); ("ConIterOfArray", "Sync");
   ("ConIterOfIter", "Send"); ("ConIterOfIter", "Sync");
   ("ConIterOfRange", "Send"); ("ConIterOfRange", "Sync");
   ("ConIterOfSlice", "Send"); ("ConIterOfSlice", "Sync");
   ("ConIterOfVec", "Send"); ("ConIterOfVec", "Sync");
   ("Copied", "Send"); ("Copied", "Sync");
   ("TakenSlice", "Send"); ("TakenSlice", "Sync")].
Proof. exact known_impls. Qed.
Print Assumptions c14_every_unsafe_impl_is_covered.

Theorem c14_every_constructor_is_covered :
  all_ctors =
  [("ConcurrentIterable", "Array"); ("ConcurrentIterable", "Range");
   ("ConcurrentIterable", "Slice"); ("ConcurrentIterable", "Vec");
   ("IntoCloned", "Blanket");
   ("IntoConcurrentIter", "Array"); ("IntoConcurrentIter", "Range");
   ("IntoConcurrentIter", "Slice"); ("IntoConcurrentIter", "Vec");
   ("IntoCopied", "Blanket");
   ("IterIntoConcurrentIter", "Blanket")].
Proof. exact known_ctors. Qed.
Print Assumptions c14_every_constructor_is_covered.

Theorem c14_every_concurrent_iter_impl_is_covered :
  all_con_iters =
  [("ConcurrentIter", "Cloned"); ("ConcurrentIter", "ConIterOfArray");
   ("ConcurrentIter", "ConIterOfIter"); ("ConcurrentIter", "ConIterOfRange");
   ("ConcurrentIter", "ConIterOfSlice"); ("ConcurrentIter", "ConIterOfVec");
   ("ConcurrentIter", "Copied")].
Proof. exact known_con_iters. Qed.
Print Assumptions c14_every_concurrent_iter_impl_is_covered.

Theorem c14_TakenSlice_send_ok :
  forall f, declared_TakenSlice_send f = true -> required_TakenSlice_send f = true.
Proof. exact TakenSlice_send_ok. Qed.
Print Assumptions c14_TakenSlice_send_ok.

Theorem c14_TakenSlice_sync_ok :
  forall f, declared_TakenSlice_sync f = true -> required_TakenSlice_sync f = true.
Proof. exact TakenSlice_sync_ok. Qed.
Print Assumptions c14_TakenSlice_sync_ok.

Theorem c14_ConIterOfVec_sync_ok :
  forall f, declared_ConIterOfVec_sync f = true -> required_ConIterOfVec_sync f = true.
Proof. exact ConIterOfVec_sync_ok. Qed.
Print Assumptions c14_ConIterOfVec_sync_ok.

Theorem c14_ConIterOfVec_send_ok :
  forall f, declared_ConIterOfVec_send f = true -> required_ConIterOfVec_send f = true.
Proof. exact ConIterOfVec_send_ok. Qed.
Print Assumptions c14_ConIterOfVec_send_ok.

Theorem c14_ConIterOfArray_sync_ok :
  forall f, declared_ConIterOfArray_sync f = true -> required_ConIterOfArray_sync f = true.
Proof. exact ConIterOfArray_sync_ok. Qed.
Print Assumptions c14_ConIterOfArray_sync_ok.

Theorem c14_ConIterOfArray_send_ok :
  forall f, declared_ConIterOfArray_send f = true -> required_ConIterOfArray_send f = true.
Proof. exact ConIterOfArray_send_ok. Qed.
Print Assumptions c14_ConIterOfArray_send_ok.

Theorem c14_ConIterOfSlice_sync_ok :
  forall f, declared_ConIterOfSlice_sync f = true -> required_ConIterOfSlice_sync f = true.
Proof. exact ConIterOfSlice_sync_ok. Qed.
Print Assumptions c14_ConIterOfSlice_sync_ok.

Theorem c14_ConIterOfSlice_send_ok :
  forall f, declared_ConIterOfSlice_send f = true -> required_ConIterOfSlice_send f = true.
Proof. exact ConIterOfSlice_send_ok. Qed.
Print Assumptions c14_ConIterOfSlice_send_ok.

Theorem c14_ConIterOfRange_sync_ok :
  forall f, declared_ConIterOfRange_sync f = true -> required_ConIterOfRange_sync f = true.
Proof. exact ConIterOfRange_sync_ok. Qed.
Print Assumptions c14_ConIterOfRange_sync_ok.

Theorem c14_ConIterOfRange_send_ok :
  forall f, declared_ConIterOfRange_send f = true -> required_ConIterOfRange_send f = true.
Proof. exact ConIterOfRange_send_ok. Qed.
Print Assumptions c14_ConIterOfRange_send_ok.

Theorem c14_ConIterOfIter_sync_refuted :
  exists f, declared_ConIterOfIter_sync f = true /\ required_ConIterOfIter_sync f = false.
Proof. exact ConIterOfIter_sync_refuted. Qed.
Print Assumptions c14_ConIterOfIter_sync_refuted.

Theorem c14_ConIterOfIter_send_refuted :
  exists f, declared_ConIterOfIter_send f = true /\ required_ConIterOfIter_send f = false.
Proof. exact ConIterOfIter_send_refuted. Qed.
Print Assumptions c14_ConIterOfIter_send_refuted.

Theorem c14_Cloned_sync_ok :
  forall f, declared_Cloned_sync f = true -> required_Cloned_sync f = true.
Proof. exact Cloned_sync_ok. Qed.
Print Assumptions c14_Cloned_sync_ok.

Theorem c14_Cloned_send_ok :
  forall f, declared_Cloned_send f = true -> required_Cloned_send f = true.
Proof. exact Cloned_send_ok. Qed.
Print Assumptions c14_Cloned_send_ok.

Theorem c14_Copied_sync_ok :
  forall f, declared_Copied_sync f = true -> required_Copied_sync f = true.
Proof. exact Copied_sync_ok. Qed.
Print Assumptions c14_Copied_sync_ok.

Theorem c14_Copied_send_ok :
  forall f, declared_Copied_send f = true -> required_Copied_send f = true.
Proof. exact Copied_send_ok. Qed.
Print Assumptions c14_Copied_send_ok.

Theorem c14_supertraits_promise_send_sync :
  super_ConcurrentIter_send = true /\ super_ConcurrentIter_sync = true /\
  super_AtomicIter_send = true /\ super_AtomicIter_sync = true.
Proof. exact supertraits_promise_send_sync. Qed.
Print Assumptions c14_supertraits_promise_send_sync.

Theorem c14_impl_ConIterOfVec_ok :
  forall f, impl_ConcurrentIter_ConIterOfVec f = true -> required_share_ConIterOfVec f = true.
Proof. exact impl_ConIterOfVec_ok. Qed.
Print Assumptions c14_impl_ConIterOfVec_ok.

Theorem c14_impl_ConIterOfArray_ok :
  forall f, impl_ConcurrentIter_ConIterOfArray f = true -> required_share_ConIterOfArray f = true.
Proof. exact impl_ConIterOfArray_ok. Qed.
Print Assumptions c14_impl_ConIterOfArray_ok.

Theorem c14_impl_ConIterOfSlice_ok :
  forall f, impl_ConcurrentIter_ConIterOfSlice f = true -> required_share_ConIterOfSlice f = true.
Proof. exact impl_ConIterOfSlice_ok. Qed.
Print Assumptions c14_impl_ConIterOfSlice_ok.

Theorem c14_impl_ConIterOfRange_ok :
  forall f, impl_ConcurrentIter_ConIterOfRange f = true -> required_share_ConIterOfRange f = true.
Proof. exact impl_ConIterOfRange_ok. Qed.
Print Assumptions c14_impl_ConIterOfRange_ok.

Theorem c14_impl_Cloned_ok :
  forall f, impl_ConcurrentIter_Cloned f = true -> required_share_Cloned f = true.
Proof. exact impl_Cloned_ok. Qed.
Print Assumptions c14_impl_Cloned_ok.

Theorem c14_impl_Copied_ok :
  forall f, impl_ConcurrentIter_Copied f = true -> required_share_Copied f = true.
Proof. exact impl_Copied_ok. Qed.
Print Assumptions c14_impl_Copied_ok.

Theorem c14_impl_ConIterOfIter_refuted :
  exists f, impl_ConcurrentIter_ConIterOfIter f = true /\ required_share_ConIterOfIter f = false.
Proof. exact impl_ConIterOfIter_refuted. Qed.
Print Assumptions c14_impl_ConIterOfIter_refuted.

Theorem c14_ctor_into_Vec_ok :
  forall f, ctor_IntoConcurrentIter_Vec f = true -> required_share_ConIterOfVec f = true.
Proof. exact ctor_into_Vec_ok. Qed.
Print Assumptions c14_ctor_into_Vec_ok.

Theorem c14_ctor_into_Array_ok :
  forall f, ctor_IntoConcurrentIter_Array f = true -> required_share_ConIterOfArray f = true.
Proof. exact ctor_into_Array_ok. Qed.
Print Assumptions c14_ctor_into_Array_ok.

Theorem c14_ctor_into_Slice_ok :
  forall f, ctor_IntoConcurrentIter_Slice f = true -> required_share_ConIterOfSlice f = true.
Proof. exact ctor_into_Slice_ok. Qed.
Print Assumptions c14_ctor_into_Slice_ok.

Theorem c14_ctor_into_Range_ok :
  forall f, ctor_IntoConcurrentIter_Range f = true -> required_share_ConIterOfRange f = true.
Proof. exact ctor_into_Range_ok. Qed.
Print Assumptions c14_ctor_into_Range_ok.

Theorem c14_ctor_iterable_Vec_ok :
  forall f, ctor_ConcurrentIterable_Vec f = true -> required_share_ConIterOfSlice f = true.
Proof. exact ctor_iterable_Vec_ok. Qed.
Print Assumptions c14_ctor_iterable_Vec_ok.

Theorem c14_ctor_iterable_Array_ok :
  forall f, ctor_ConcurrentIterable_Array f = true -> required_share_ConIterOfSlice f = true.
Proof. exact ctor_iterable_Array_ok. Qed.
Print Assumptions c14_ctor_iterable_Array_ok.

Theorem c14_ctor_iterable_Slice_ok :
  forall f, ctor_ConcurrentIterable_Slice f = true -> required_share_ConIterOfSlice f = true.
Proof. exact ctor_iterable_Slice_ok. Qed.
Print Assumptions c14_ctor_iterable_Slice_ok.

Theorem c14_ctor_iterable_Range_ok :
  forall f, ctor_ConcurrentIterable_Range f = true -> required_share_ConIterOfRange f = true.
Proof. exact ctor_iterable_Range_ok. Qed.
Print Assumptions c14_ctor_iterable_Range_ok.

Theorem c14_ctor_cloned_ok :
  forall f, ctor_IntoCloned_Blanket f = true -> required_share_Cloned f = true.
Proof. exact ctor_cloned_ok. Qed.
Print Assumptions c14_ctor_cloned_ok.

Theorem c14_ctor_copied_ok :
  forall f, ctor_IntoCopied_Blanket f = true -> required_share_Copied f = true.
Proof. exact ctor_copied_ok. Qed.
Print Assumptions c14_ctor_copied_ok.

Theorem c14_ctor_iter_refuted :
  exists f, ctor_IterIntoConcurrentIter_Blanket f = true /\ required_share_ConIterOfIter f = false.
Proof. exact ctor_iter_refuted. Qed.
Print Assumptions c14_ctor_iter_refuted.

(** the public surface (clause: no sequence of safe public calls produces two owners) *)
From OCI.gen Require Import Surface.
From OCI.proofs Require Import SurfaceOk.
Theorem c14_public_modules_are_the_reviewed_ones : public_modules = ["iter"; "iter::atomic_iter"].
Proof. exact known_public_modules. Qed.
Print Assumptions c14_public_modules_are_the_reviewed_ones.

Theorem c14_internal_protocol_modules_are_private :
  forallb (fun m => existsb (String.eqb m) private_modules)
          ["iter::buffered"; "iter::buffered::buffered_chunk"; "iter::buffered::buffered_iter"; "iter::implementors";
           "iter::implementors::taken_slice"; "iter::default_fns"; "iter::constructors::implementors"] = true.
Proof. exact internal_modules_private. Qed.
Print Assumptions c14_internal_protocol_modules_are_private.
