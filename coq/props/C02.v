(** Property C02 -- statements only.  Every theorem is closed by [exact] of a lemma of the development and
    followed by [Print Assumptions]. *)
From Coq Require Import ZArith.
From OCI Require Import Machine Checkers.
From OCI.proofs Require Import ArithOk Trace InvKnown ChkKnown IterBase ChkIter ChkAll.
From OCI.proofs Require Import GapFree.
Open Scope N_scope.

Check all_C02 : forall e, src_env e -> fused e -> forall progs, wf_progs progs -> forall sched,
  nowrap (c_labels (exec e (init progs) sched)) ->
  chk_C02 e (c_trace (exec e (init progs) sched)) = true.
Theorem c02_index_fidelity : forall e, src_env e -> fused e -> forall progs, wf_progs progs -> forall sched,
  nowrap (c_labels (exec e (init progs) sched)) ->
  chk_C02 e (c_trace (exec e (init progs) sched)) = true.
Proof. exact all_C02. Qed.
Print Assumptions c02_index_fidelity.

(** a wrapped iterator that is not fused: index fidelity holds on every run on which the wrapped next() has not yet answered None although elements remain ([gap_free]: none of the calls made so far is such an answer).  (As long as a waiting thread could still be served after such an answer it was false from then on: positions fell behind the indices of the tickets.  Since the waiting loop looks at the completed flag once more it holds on every run: [c02_index_fidelity_any_iterator] below.) *)
Theorem c02_index_fidelity_until_first_gap : forall e, iter_env e -> forall progs, wf_progs progs -> forall sched,
  nowrap (c_labels (exec e (init progs) sched)) ->
  gap_free e (s_calls (c_sh (exec e (init progs) sched))) ->
  check_prop 2 e (c_trace (exec e (init progs) sched)) (c_labels (exec e (init progs) sched)) = true.
Proof. exact iter_C02_until_gap. Qed.
Print Assumptions c02_index_fidelity_until_first_gap.

(** ** after the repair of the waiting loop (a thread that finds its ticket at the yielded counter looks at
    the completed flag once more before it uses the wrapped iterator): nothing is delivered after the first
    None of the wrapped iterator, premature or not ([C07.c07_no_call_after_none]) *)
From OCI.proofs Require Import AfterNone.

(** every wrapped iterator, fused or not: index fidelity, on every run *)
Theorem c02_index_fidelity_any_iterator : forall e, iter_env e -> forall progs, wf_progs progs -> forall sched,
  nowrap (c_labels (exec e (init progs) sched)) ->
  check_prop 2 e (c_trace (exec e (init progs) sched)) (c_labels (exec e (init progs) sched)) = true.
Proof. exact iter_C02_any. Qed.
Print Assumptions c02_index_fidelity_any_iterator.
