(** Property C15 -- statements only.  Every theorem is closed by [exact] of a lemma of the development and
    followed by [Print Assumptions]. *)
From Coq Require Import ZArith.
From OCI Require Import Machine Checkers.
From OCI.proofs Require Import ArithOk Trace InvKnown ChkKnown Leak.
Open Scope N_scope.

Theorem c15_every_element_released_exactly_once : forall e, known_env e -> e_owning e = true ->
  forall progs, wf_progs progs -> forall sched,
  nowrap (c_labels (exec e (init progs) sched)) ->
  n_pending (c_trace (exec e (init progs) sched)) = 0%Z ->
  forall t f,
  let tr := c_trace (final_step e (exec e (init progs) sched) t f) in
  pairwise_disj (taken_all e tr ++ dropped_all tr) = true /\
  iv_within (e_len e) (taken_all e tr ++ dropped_all tr) = true /\
  iv_total (taken_all e tr ++ dropped_all tr) = e_len e.
Proof. exact all_released. Qed.
Print Assumptions c15_every_element_released_exactly_once.

(** the owning wrapper over an arbitrary iterator: at the end of life, once every thread has dropped its
    buffered iterator, the ledger of handed-out and destroyed positions is exact *)
From OCI.proofs Require Import IterBase ChkIter IterLedger.
Theorem c15_wrapped_iterator_end_of_life : forall e, iter_env e -> forall progs, wf_progs progs -> forall sched,
  nowrap (c_labels (exec e (init progs) sched)) ->
  n_pending (c_trace (exec e (init progs) sched)) = 0%Z ->
  (forall t, In t (nodup Nat.eq_dec sched) -> t_buf (c_pool (exec e (init progs) sched) t) = None) ->
  forall t f, chk_C08 e (c_trace (final_step e (exec e (init progs) sched) t f)) = true.
Proof. exact iter_C08_final. Qed.
Print Assumptions c15_wrapped_iterator_end_of_life.
