(** Property C16 -- statements only.  Every theorem is closed by [exact] of a lemma of the development and
    followed by [Print Assumptions]. *)
From Coq Require Import ZArith.
From OCI Require Import Machine Checkers.
From OCI.proofs Require Import ArithOk Trace InvKnown ChkKnown.
Open Scope N_scope.

Check k_pull_spec : forall e q b, wf_env e -> wf_req q -> k_pull e q b = Ok (pull_spec e (q_n q) b).
Theorem c16_pull_arithmetic : forall e q b, wf_env e -> wf_req q -> k_pull e q b = Ok (pull_spec e (q_n q) b).
Proof. exact k_pull_spec. Qed.
Print Assumptions c16_pull_arithmetic.

Check pull_spec_got : forall e n b b' rs cnt, pull_spec e n b = PRGot b' rs cnt ->
  b' = b /\ rs = [mk_run (Some b) (val_of e b) cnt] /\ 1 <= cnt /\ cnt <= n /\ b + cnt <= e_len e /\
  (cnt < n -> b + cnt = e_len e).
Theorem c16_delivered_interval : forall e n b b' rs cnt, pull_spec e n b = PRGot b' rs cnt ->
  b' = b /\ rs = [mk_run (Some b) (val_of e b) cnt] /\ 1 <= cnt /\ cnt <= n /\ b + cnt <= e_len e /\
  (cnt < n -> b + cnt = e_len e).
Proof. exact pull_spec_got. Qed.
Print Assumptions c16_delivered_interval.

