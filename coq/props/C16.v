(** Property C16 -- statements only.  Every theorem is closed by [exact] of a lemma of the development and
    followed by [Print Assumptions]. *)
From Coq Require Import ZArith.
From OCI Require Import Machine Checkers.
From OCI.proofs Require Import ArithOk Trace InvKnown ChkKnown.
Open Scope N_scope.

Check k_pull_spec : forall e q b, wf_env e -> wf_req q -> k_pull e q b = Ok (pull_spec e (q_n q) b).
Theorem c16_pull_arithmetic : forall e q b, wf_env e -> wf_req q -> k_pull e q b = Ok (pull_spec e (q_n q) b).
Proof. exact k_pull_spec. Qed.
Print Assumptions c16_pull_arithmetic.

Check pull_spec_got : forall e n b b' rs cnt, pull_spec e n b = PRGot b' rs cnt ->
  b' = b /\ rs = [mk_run (Some b) (val_of e b) cnt] /\ 1 <= cnt /\ cnt <= n /\ b + cnt <= e_len e /\
  (cnt < n -> b + cnt = e_len e).
Theorem c16_delivered_interval : forall e n b b' rs cnt, pull_spec e n b = PRGot b' rs cnt ->
  b' = b /\ rs = [mk_run (Some b) (val_of e b) cnt] /\ 1 <= cnt /\ cnt <= n /\ b + cnt <= e_len e /\
  (cnt < n -> b + cnt = e_len e).
Proof. exact pull_spec_got. Qed.
Print Assumptions c16_delivered_interval.


(** run level: nothing panics on any run of a known-size kind except the documented panics for a chunk
    size of zero, a one-shot chunk pull of size zero reports the end, the end of life never panics *)
From OCI.proofs Require Import RunC16.
Theorem c16_runs_known_kinds : forall e, known_env e -> forall progs, wf_progs progs -> plain_progs progs -> forall sched,
  nowrap (c_labels (exec e (init progs) sched)) ->
  chk_C16 e (c_trace (exec e (init progs) sched)) = true.
Proof. exact known_C16_run. Qed.
Print Assumptions c16_runs_known_kinds.

Theorem c16_end_of_life_known_kinds : forall e, known_env e -> forall progs, wf_progs progs -> plain_progs progs -> forall sched,
  nowrap (c_labels (exec e (init progs) sched)) -> forall t f,
  chk_C16 e (c_trace (final_step e (exec e (init progs) sched) t f)) = true.
Proof. exact known_C16_final. Qed.
Print Assumptions c16_end_of_life_known_kinds.

(** the wrapper over an arbitrary iterator whose next() and whose closures do not panic *)
From OCI.proofs Require Import IterBase ChkIter IterRunC16.
Theorem c16_runs_wrapped_iterator : forall e, iter_env e -> e_crash e = None -> forall progs, wf_progs progs -> plain_progs progs -> forall sched,
  nowrap (c_labels (exec e (init progs) sched)) ->
  chk_C16 e (c_trace (exec e (init progs) sched)) = true.
Proof. exact iter_C16_run. Qed.
Print Assumptions c16_runs_wrapped_iterator.

Theorem c16_end_of_life_wrapped_iterator : forall e, iter_env e -> e_crash e = None -> forall progs, wf_progs progs -> plain_progs progs -> forall sched,
  nowrap (c_labels (exec e (init progs) sched)) -> forall t f,
  chk_C16 e (c_trace (final_step e (exec e (init progs) sched) t f)) = true.
Proof. exact iter_C16_final. Qed.
Print Assumptions c16_end_of_life_wrapped_iterator.

(** ** the hypothesis [nowrap] is necessary (finding F16: for a source of usize::MAX elements,
    [next_chunk(usize::MAX); next(); next()] wraps the position counter and position 0 is delivered again):
    for each known-size kind a run that meets every other hypothesis of [c16_runs_known_kinds], on which a
    position is delivered twice (a conjunct of [check_prop 16]) and after the end was reported *)
From OCI.proofs Require Import Witnesses.
Theorem c16_refuted_when_the_position_counter_wraps :
  forall k, is_known k = true ->
  exists e progs sched, e_kind e = k /\ known_env e /\ wf_progs progs /\ plain_progs progs /\
    ~ nowrap (c_labels (exec e (init progs) sched)) /\
    chk_C01_nodup e (c_trace (exec e (init progs) sched)) = false /\
    check_prop 5 e (c_trace (exec e (init progs) sched)) (c_labels (exec e (init progs) sched)) = false /\
    check_prop 16 e (c_trace (exec e (init progs) sched)) (c_labels (exec e (init progs) sched)) = false.
Proof. exact f16_exactly_once_and_end_permanence_fail_when_the_position_counter_wraps. Qed.
Print Assumptions c16_refuted_when_the_position_counter_wraps.
