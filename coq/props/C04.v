(** Property C04 -- statements only.  Every theorem is closed by [exact] of a lemma of the development and
    followed by [Print Assumptions]. *)
From Coq Require Import ZArith.
From OCI Require Import Machine Checkers.
From OCI.proofs Require Import ArithOk Trace InvKnown ChkKnown IterBase ChkIter ChkAll.
From OCI.proofs Require Import GapFree.
Open Scope N_scope.

Check all_C04 : forall e, src_env e -> fused e -> forall progs, wf_progs progs -> forall sched,
  nowrap (c_labels (exec e (init progs) sched)) ->
  check_prop 4 e (c_trace (exec e (init progs) sched)) (c_labels (exec e (init progs) sched)) = true.
Theorem c04_linearizable_cursor : forall e, src_env e -> fused e -> forall progs, wf_progs progs -> forall sched,
  nowrap (c_labels (exec e (init progs) sched)) ->
  check_prop 4 e (c_trace (exec e (init progs) sched)) (c_labels (exec e (init progs) sched)) = true.
Proof. exact all_C04. Qed.
Print Assumptions c04_linearizable_cursor.

(** a wrapped iterator that is not fused: one linearizable cursor, on every run on which the wrapped next() has not yet answered None although elements remain *)
Theorem c04_linearizable_cursor_until_first_gap : forall e, iter_env e -> forall progs, wf_progs progs -> forall sched,
  nowrap (c_labels (exec e (init progs) sched)) ->
  gap_free e (s_calls (c_sh (exec e (init progs) sched))) ->
  check_prop 4 e (c_trace (exec e (init progs) sched)) (c_labels (exec e (init progs) sched)) = true.
Proof. exact iter_C04_until_gap. Qed.
Print Assumptions c04_linearizable_cursor_until_first_gap.

(** ** after the repair of the waiting loop (a thread that finds its ticket at the yielded counter looks at
    the completed flag once more before it uses the wrapped iterator): nothing is delivered after the first
    None of the wrapped iterator, premature or not ([C07.c07_no_call_after_none]) *)
From OCI.proofs Require Import AfterNone.

(** every wrapped iterator, fused or not: one linearizable cursor, on every run *)
Theorem c04_linearizable_cursor_any_iterator : forall e, iter_env e -> forall progs, wf_progs progs -> forall sched,
  nowrap (c_labels (exec e (init progs) sched)) ->
  check_prop 4 e (c_trace (exec e (init progs) sched)) (c_labels (exec e (init progs) sched)) = true.
Proof. exact iter_C04_any. Qed.
Print Assumptions c04_linearizable_cursor_any_iterator.

(** ** the sequential corollary: "any single-threaded sequence of operations yields exactly what the wrapped
    sequential iterator would yield, in the same order"

    only thread [t0] ever runs (any number of its steps; the run may stop inside an operation).
    [cov_in_order e tr]: the intervals of positions delivered by the return events of [tr], oldest event
    first ([cov], the deliveries the checkers judge: a chunk delivers all its elements when it is returned,
    taken by the caller or not).  [adjacent_from 0 l]: the intervals of [l], in the order of the list, are
    [0, a1), [a1, a2), ...; [positions l]: their positions one by one.  Every source kind; a wrapped
    iterator fused or not; [skip_to_end] allowed (nothing is delivered after it) *)
From OCI.proofs Require Import RunC16 Sequential.

Theorem c04_single_thread_is_sequential : forall e, src_env e -> forall progs, wf_progs progs ->
  forall t0 sched, Forall (fun t => t = t0) sched ->
  nowrap (c_labels (exec e (init progs) sched)) ->
  has_panic (c_trace (exec e (init progs) sched)) = false ->
  adjacent_from 0 (cov_in_order e (c_trace (exec e (init progs) sched))) = true.
Proof. exact solo_sequential. Qed.
Print Assumptions c04_single_thread_is_sequential.

(** position by position: the positions handed out are 0, 1, ..., m - 1 in this order *)
Theorem c04_single_thread_positions_in_order : forall e, src_env e -> forall progs, wf_progs progs ->
  forall t0 sched, Forall (fun t => t = t0) sched ->
  nowrap (c_labels (exec e (init progs) sched)) ->
  has_panic (c_trace (exec e (init progs) sched)) = false ->
  positions (cov_in_order e (c_trace (exec e (init progs) sched))) =
  run_vals 0 (N.to_nat (iv_total (cov e (c_trace (exec e (init progs) sched))))).
Proof. exact solo_sequential_positions. Qed.
Print Assumptions c04_single_thread_positions_in_order.

(** with the absence of panics read off the programs: no closure is told to panic, a buffered pull has a
    buffered iterator, no loop and no buffered iterator has chunk size zero, the wrapped iterator does not panic *)
Theorem c04_single_thread_is_sequential_programs : forall e, src_env e -> e_crash e = None ->
  forall progs, wf_progs progs -> plain_progs progs -> (forall t, Forall op_nz (progs t)) ->
  forall t0 k,
  nowrap (c_labels (exec e (init progs) (repeat t0 k))) ->
  adjacent_from 0 (cov_in_order e (c_trace (exec e (init progs) (repeat t0 k)))) = true /\
  positions (cov_in_order e (c_trace (exec e (init progs) (repeat t0 k)))) =
  run_vals 0 (N.to_nat (iv_total (cov e (c_trace (exec e (init progs) (repeat t0 k)))))).
Proof. exact solo_sequential_progs. Qed.
Print Assumptions c04_single_thread_is_sequential_programs.

(** the history the cursor theorems speak about only grows: the events and labels recorded after the
    schedule [a] are still there, unchanged and in place, after [a ++ b] (the lists grow at the head).  The
    theorems above are stated for the trace at the end of an arbitrary schedule; with this they hold at
    every intermediate point of every run, and nothing that was delivered is ever taken back or re-ordered
    by a later step. *)
From OCI.proofs Require Import Progress History.
Theorem c04_history_is_append_only : forall e c a b,
  exists evs ls,
    c_trace (exec e c (a ++ b)) = evs ++ c_trace (exec e c a) /\
    c_labels (exec e c (a ++ b)) = ls ++ c_labels (exec e c a).
Proof. exact history_append_only. Qed.
Print Assumptions c04_history_is_append_only.

Theorem c04_answers_are_never_retracted : forall e c a b t,
  (rets t (c_trace (exec e c a)) <= rets t (c_trace (exec e c (a ++ b))))%nat.
Proof. exact answers_are_never_retracted. Qed.
Print Assumptions c04_answers_are_never_retracted.

(** the cursor of the wrapped iterator (the number of elements it has yielded) never moves back *)
Theorem c04_source_cursor_never_rewinds : forall e c a b,
  (s_cur (c_sh (exec e c a)) <= s_cur (c_sh (exec e c (a ++ b))))%N.
Proof. exact source_cursor_never_rewinds. Qed.
Print Assumptions c04_source_cursor_never_rewinds.
