(** Property C04 -- statements only.  Every theorem is closed by [exact] of a lemma of the development and
    followed by [Print Assumptions]. *)
From Coq Require Import ZArith.
From OCI Require Import Machine Checkers.
From OCI.proofs Require Import ArithOk Trace InvKnown ChkKnown.
Open Scope N_scope.

Check known_C04 : forall e, known_env e -> forall progs, wf_progs progs -> forall sched,
  nowrap (c_labels (exec e (init progs) sched)) ->
  check_prop 4 e (c_trace (exec e (init progs) sched)) (c_labels (exec e (init progs) sched)) = true.
Theorem c04_known_kinds : forall e, known_env e -> forall progs, wf_progs progs -> forall sched,
  nowrap (c_labels (exec e (init progs) sched)) ->
  check_prop 4 e (c_trace (exec e (init progs) sched)) (c_labels (exec e (init progs) sched)) = true.
Proof. exact known_C04. Qed.
Print Assumptions c04_known_kinds.

