(** Property C07 -- statements only.  Every theorem is closed by [exact] of a lemma of the development and
    followed by [Print Assumptions]. *)
From Coq Require Import ZArith.
From OCI Require Import Machine Checkers.
From OCI.proofs Require Import ArithOk Trace InvKnown ChkKnown IterBase ChkIter ChkIterH ChkAll.
Open Scope N_scope.

Check iter_mutex : forall e, iter_env e -> forall progs, wf_progs progs -> forall sched,
  nowrap (c_labels (exec e (init progs) sched)) ->
  forall t u, in_crit (t_pc (c_pool (exec e (init progs) sched) t)) = true -> in_crit (t_pc (c_pool (exec e (init progs) sched) u)) = true -> t = u.
Theorem c07_mutual_exclusion : forall e, iter_env e -> forall progs, wf_progs progs -> forall sched,
  nowrap (c_labels (exec e (init progs) sched)) ->
  forall t u, in_crit (t_pc (c_pool (exec e (init progs) sched) t)) = true -> in_crit (t_pc (c_pool (exec e (init progs) sched) u)) = true -> t = u.
Proof. exact iter_mutex. Qed.
Print Assumptions c07_mutual_exclusion.


Check iter_C07_hb : forall e, iter_env e -> forall progs, wf_progs progs -> forall sched,
  nowrap (c_labels (exec e (init progs) sched)) ->
  chk_C07_hb (c_labels (exec e (init progs) sched)) = true.
Theorem c07_happens_before : forall e, iter_env e -> forall progs, wf_progs progs -> forall sched,
  nowrap (c_labels (exec e (init progs) sched)) ->
  chk_C07_hb (c_labels (exec e (init progs) sched)) = true.
Proof. exact iter_C07_hb. Qed.
Print Assumptions c07_happens_before.

(** the mutual-exclusion scan of the label stream (the first half of [check_prop 7], which judges the
    crate's label streams) never objects to the model *)
From OCI.proofs Require Import IterMutexScan.
Theorem c07_label_stream_scan : forall e, iter_env e -> forall progs, wf_progs progs -> forall sched,
  nowrap (c_labels (exec e (init progs) sched)) ->
  chk_C07_mutex (c_labels (exec e (init progs) sched)) = true.
Proof. exact iter_C07_mutex_scan. Qed.
Print Assumptions c07_label_stream_scan.
