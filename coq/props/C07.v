(** Property C07 -- statements only.  Every theorem is closed by [exact] of a lemma of the development and
    followed by [Print Assumptions]. *)
From Coq Require Import ZArith.
From OCI Require Import Machine Checkers.
From OCI.proofs Require Import ArithOk Trace InvKnown ChkKnown IterBase ChkIter ChkIterH ChkAll.
Open Scope N_scope.

Check iter_mutex : forall e, iter_env e -> forall progs, wf_progs progs -> forall sched,
  nowrap (c_labels (exec e (init progs) sched)) ->
  forall t u, in_crit (t_pc (c_pool (exec e (init progs) sched) t)) = true -> in_crit (t_pc (c_pool (exec e (init progs) sched) u)) = true -> t = u.
Theorem c07_mutual_exclusion : forall e, iter_env e -> forall progs, wf_progs progs -> forall sched,
  nowrap (c_labels (exec e (init progs) sched)) ->
  forall t u, in_crit (t_pc (c_pool (exec e (init progs) sched) t)) = true -> in_crit (t_pc (c_pool (exec e (init progs) sched) u)) = true -> t = u.
Proof. exact iter_mutex. Qed.
Print Assumptions c07_mutual_exclusion.


Check iter_C07_hb : forall e, iter_env e -> forall progs, wf_progs progs -> forall sched,
  nowrap (c_labels (exec e (init progs) sched)) ->
  chk_C07_hb (c_labels (exec e (init progs) sched)) = true.
Theorem c07_happens_before : forall e, iter_env e -> forall progs, wf_progs progs -> forall sched,
  nowrap (c_labels (exec e (init progs) sched)) ->
  chk_C07_hb (c_labels (exec e (init progs) sched)) = true.
Proof. exact iter_C07_hb. Qed.
Print Assumptions c07_happens_before.

(** the mutual-exclusion scan of the label stream (the first half of [check_prop 7], which judges the
    crate's label streams) never objects to the model *)
From OCI.proofs Require Import IterMutexScan.
Theorem c07_label_stream_scan : forall e, iter_env e -> forall progs, wf_progs progs -> forall sched,
  nowrap (c_labels (exec e (init progs) sched)) ->
  chk_C07_mutex (c_labels (exec e (init progs) sched)) = true.
Proof. exact iter_C07_mutex_scan. Qed.
Print Assumptions c07_label_stream_scan.

(** ** the wrapped iterator is not used after it has answered None

    on the label stream (latest label first): no call of the wrapped next() ([LSrc], [LSrcPanic]) follows one
    that answered None -- whether that None was the end of the wrapped iterator or a premature one.  (The
    thread that meets None raises the completed flag before it publishes; a thread that finds its ticket at
    the yielded counter afterwards looks at the completed flag once more and reports the end.) *)
From OCI.proofs Require Import AfterNone.
Theorem c07_no_call_after_none : forall e, iter_env e -> forall progs, wf_progs progs -> forall sched,
  nowrap (c_labels (exec e (init progs) sched)) ->
  no_src_after_none (c_labels (exec e (init progs) sched)) = true.
Proof. exact iter_no_src_after_none. Qed.
Print Assumptions c07_no_call_after_none.

(** the same with the panics of the wrapped iterator: no call follows one that answered None or panicked *)
Theorem c07_no_call_after_none_or_panic : forall e, iter_env e -> forall progs, wf_progs progs -> forall sched,
  nowrap (c_labels (exec e (init progs) sched)) ->
  no_src_after_stop (c_labels (exec e (init progs) sched)) = true.
Proof. exact iter_no_src_after_stop. Qed.
Print Assumptions c07_no_call_after_none_or_panic.

(** the state form: once some call has answered None, in every later state no thread is about to call the
    wrapped next(), and the completed flag is up or the thread that met the None is about to raise it *)
Theorem c07_none_is_final : forall e, iter_env e -> forall progs, wf_progs progs -> forall sched,
  nowrap (c_labels (exec e (init progs) sched)) ->
  existsb is_none (c_labels (exec e (init progs) sched)) = true ->
  (forall t q b g, t_pc (c_pool (exec e (init progs) sched) t) <> PSrc q b g) /\
  (s_f (c_sh (exec e (init progs) sched)) = true \/
   exists t, closing (t_pc (c_pool (exec e (init progs) sched) t)) = true).
Proof. exact iter_none_is_final. Qed.
Print Assumptions c07_none_is_final.

(** ** the hypothesis [nowrap] is necessary (finding F14: [next(); next_chunk(usize::MAX)] wraps the reserved
    counter of the wrapper; two pullers then hold the same ticket): a run that meets every other hypothesis
    of the theorems above, on which the scan objects and two distinct threads are inside together *)
From OCI.proofs Require Import RunC16 Witnesses.
Theorem c07_refuted_when_the_reserved_counter_wraps :
  exists e progs sched, iter_env e /\ fused e /\ e_crash e = None /\ wf_progs progs /\ plain_progs progs /\
    ~ nowrap (c_labels (exec e (init progs) sched)) /\
    chk_C07_mutex (c_labels (exec e (init progs) sched)) = false /\
    exists t u, t <> u /\
      in_crit (t_pc (c_pool (exec e (init progs) sched) t)) = true /\
      in_crit (t_pc (c_pool (exec e (init progs) sched) u)) = true.
Proof. exact f14_mutual_exclusion_fails_when_the_reserved_counter_wraps. Qed.
Print Assumptions c07_refuted_when_the_reserved_counter_wraps.

(** granularity of the interleaving model: a step of thread [u] records at most one label -- one atomic
    access or one call of the wrapped iterator's next() -- and that label carries [u]; so a run of [n] steps has
    at most [n] labels, each of a scheduled thread.  The theorems above quantify over every schedule of steps
    of this size: no two accesses of one thread are ever executed together as one indivisible step. *)
From OCI.proofs Require Import Progress History.
Theorem c07_one_access_per_step : forall e c u,
  c_labels (step e c u) = c_labels c \/
  exists l, c_labels (step e c u) = l :: c_labels c /\ lbl_tid l = u.
Proof. exact step_one_label. Qed.
Print Assumptions c07_one_access_per_step.

Theorem c07_labels_belong_to_scheduled_threads : forall e progs sched,
  Forall (fun l => In (lbl_tid l) sched) (c_labels (exec e (init progs) sched)) /\
  (length (c_labels (exec e (init progs) sched)) <= length sched)%nat.
Proof. exact run_labels_belong_to_scheduled_threads. Qed.
Print Assumptions c07_labels_belong_to_scheduled_threads.

(** book-keeping of the wrapped iterator's use: in every reachable state the number of elements it has yielded
    is at most the number of calls of its next() (each call is one step and yields at most one element) *)
Theorem c07_yields_at_most_once_per_call : forall e progs sched,
  (s_cur (c_sh (exec e (init progs) sched)) <= s_calls (c_sh (exec e (init progs) sched)))%N.
Proof. exact yields_at_most_once_per_call. Qed.
Print Assumptions c07_yields_at_most_once_per_call.

(** the ghost counters of the model are functions of the label stream -- the stream the correspondence check
    compares with the crate's, access by access: [s_calls] counts the labels that are calls of the wrapped
    next() ([n_src]), [s_cur] those at which it yielded an element ([n_yield]).  What the theorems say about the
    two counters is thereby a statement about the observable sequence of calls of the wrapped iterator *)
Theorem c07_calls_are_the_source_labels : forall e progs sched,
  s_calls (c_sh (exec e (init progs) sched)) = n_src (c_labels (exec e (init progs) sched)).
Proof. exact calls_are_the_source_labels. Qed.
Print Assumptions c07_calls_are_the_source_labels.

Theorem c07_cursor_is_the_yielding_labels : forall e progs sched,
  s_cur (c_sh (exec e (init progs) sched)) = n_yield (c_labels (exec e (init progs) sched)).
Proof. exact cursor_is_the_yielding_labels. Qed.
Print Assumptions c07_cursor_is_the_yielding_labels.

(** the label stream of every run is a sequentially consistent history of the three atomics (position /
    reserved counter, yielded counter, completed flag): [replay] executes it from the oldest label on against a
    memory that starts at (0, 0, false) and answers [None] at the first load that does not return the latest
    write to its site or fetch_add that does not report the value it found; it ends in the shared state of
    the model.  This is the exact content of "happens-before is computed over SC interleavings": the
    correspondence check compares this stream, values included, with the one the instrumented crate records *)
Theorem c07_label_stream_is_sequentially_consistent : forall e progs sched,
  replay (c_labels (exec e (init progs) sched)) = Some (mem_of (c_sh (exec e (init progs) sched))).
Proof. exact label_stream_is_sequentially_consistent. Qed.
Print Assumptions c07_label_stream_is_sequentially_consistent.
