(** Property C12 -- statements only.  Every theorem is closed by [exact] of a lemma of the development and
    followed by [Print Assumptions]. *)
From Coq Require Import ZArith.
From OCI Require Import Machine Checkers.
From OCI.proofs Require Import ArithOk Trace InvKnown ChkKnown IterBase ChkIter ChkAll.
From OCI.proofs Require Import GapFree.
Open Scope N_scope.

Check all_C12 : forall e, src_env e -> fused e -> forall progs, wf_progs progs -> forall sched,
  nowrap (c_labels (exec e (init progs) sched)) ->
  check_prop 12 e (c_trace (exec e (init progs) sched)) (c_labels (exec e (init progs) sched)) = true.
Theorem c12_loops : forall e, src_env e -> fused e -> forall progs, wf_progs progs -> forall sched,
  nowrap (c_labels (exec e (init progs) sched)) ->
  check_prop 12 e (c_trace (exec e (init progs) sched)) (c_labels (exec e (init progs) sched)) = true.
Proof. exact all_C12. Qed.
Print Assumptions c12_loops.


(** the last clause: combining the per-thread results of fold with an associative and commutative
    operation and its neutral element gives the sequential fold of the source *)
From Coq Require Import List.
From OCI.proofs Require Import Fold.
Theorem c12_fold_combination : forall e, src_env e -> fused e -> forall progs, wf_progs progs -> forall sched,
  nowrap (c_labels (exec e (init progs) sched)) ->
  let tr := c_trace (exec e (init progs) sched) in
  let L := nodup Nat.eq_dec sched in
  has_skip tr || has_panic tr = false ->
  end_reported tr = true -> n_pending tr = 0%Z ->
  forall (M : Type) (op : M -> M -> M) (unit_ : M) (f : N -> M),
  (forall a b c, op a (op b c) = op (op a b) c) -> (forall a b, op a b = op b a) -> (forall a, op unit_ a = a) ->
  mfold M op unit_ (map (fun t => mfold M op unit_ (map f (positions_of (cov_of e t tr)))) L) =
  mfold M op unit_ (map f (source_positions (e_len e))).
Proof. exact fold_combination. Qed.
Print Assumptions c12_fold_combination.

(** the shape clause and the permanence of the end for every wrapped iterator, fused or not *)
Theorem c12_loop_shape_any_iterator : forall e, iter_env e -> forall progs, wf_progs progs -> forall sched,
  nowrap (c_labels (exec e (init progs) sched)) ->
  chk_C12_shape (c_trace (exec e (init progs) sched)) = true /\ chk_C05 e (c_trace (exec e (init progs) sched)) = true.
Proof. exact (fun e He progs Hp sched Hw => conj (iter_C12_shape e He progs Hp sched Hw) (iter_C05 e He progs Hp sched Hw)). Qed.
Print Assumptions c12_loop_shape_any_iterator.

(** a wrapped iterator that is not fused: the whole of C12, on every run on which the wrapped next() has not yet answered None although elements remain *)
Theorem c12_loops_until_first_gap : forall e, iter_env e -> forall progs, wf_progs progs -> forall sched,
  nowrap (c_labels (exec e (init progs) sched)) ->
  gap_free e (s_calls (c_sh (exec e (init progs) sched))) ->
  check_prop 12 e (c_trace (exec e (init progs) sched)) (c_labels (exec e (init progs) sched)) = true.
Proof. exact iter_C12_until_gap. Qed.
Print Assumptions c12_loops_until_first_gap.

(** ** after the repair of the waiting loop (a thread that finds its ticket at the yielded counter looks at
    the completed flag once more before it uses the wrapped iterator): nothing is delivered after the first
    None of the wrapped iterator, premature or not ([C07.c07_no_call_after_none]) *)
From OCI.proofs Require Import AfterNone.

(** every wrapped iterator, fused or not, on every run: the shape clause, no element handed to two closure
    invocations, index fidelity of the enumerated form, permanence of the end *)
Theorem c12_loops_but_no_loss_any_iterator : forall e, iter_env e -> forall progs, wf_progs progs -> forall sched,
  nowrap (c_labels (exec e (init progs) sched)) ->
  chk_C12_shape (c_trace (exec e (init progs) sched)) && chk_C01_nodup e (c_trace (exec e (init progs) sched))
  && chk_C02 e (c_trace (exec e (init progs) sched)) && chk_C05 e (c_trace (exec e (init progs) sched)) = true.
Proof. exact iter_C12_any. Qed.
Print Assumptions c12_loops_but_no_loss_any_iterator.

(** a wrapped iterator whose first premature None is the answer to call number [g]: the whole of C12 on
    EVERY run, "no element is lost" being judged against what the wrapped iterator yields before that call
    ([cut e g]: [e] with [e_len := min (e_len e) g], fused) *)
Theorem c12_loops_any_iterator : forall e, iter_env e -> forall g, first_gap e g -> forall progs, wf_progs progs -> forall sched,
  nowrap (c_labels (exec e (init progs) sched)) ->
  check_prop 12 (cut e g) (c_trace (exec e (init progs) sched)) (c_labels (exec e (init progs) sched)) = true.
Proof. exact iter_C12_after_gap. Qed.
Print Assumptions c12_loops_any_iterator.
