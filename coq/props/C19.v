(** Property C19 -- statements only.  Every theorem is closed by [exact] of a lemma of the development and
    followed by [Print Assumptions]. *)
From Coq Require Import ZArith List.
From OCI Require Import Machine Checkers.
From OCI.proofs Require Import ArithOk Trace InvKnown ChkKnown Multi.
Import ListNotations.
Open Scope N_scope.

Theorem c19_iterators_are_independent : forall e ops m i c,
  nth_error m i = Some c ->
  nth_error (mexec e m ops) i = Some (exec e c (proj i ops)).
Proof. exact non_interference. Qed.
Print Assumptions c19_iterators_are_independent.

Theorem c19_clone_starts_at_current_position : forall e m j progs c,
  nth_error m j = Some c ->
  nth_error (mstep e m (MClone j progs)) (length m) = Some (clone_of c progs) /\
  s_c (c_sh (clone_of c progs)) = s_c (c_sh c) /\ c_trace (clone_of c progs) = [].
Proof. exact clone_starts_at_current. Qed.
Print Assumptions c19_clone_starts_at_current_position.

Theorem c19_source_left_intact : forall e, known_env e -> e_owning e = false ->
  forall progs, wf_progs progs -> forall ops m i,
  nth_error m i = Some (init progs) ->
  nowrap (c_labels (exec e (init progs) (proj i ops))) ->
  exists c, nth_error (mexec e m ops) i = Some c /\ iv_total (dropped_all (c_trace c)) = 0.
Proof. exact family_leaves_source_intact. Qed.
Print Assumptions c19_source_left_intact.

(** every kind of reference-yielding iterator, with no hypothesis on the run *)
From OCI.proofs Require Import Borrowed.
Theorem c19_borrowed_source_untouched : forall e, e_owning e = false -> forall progs sched,
  dropped_all (c_trace (exec e (init progs) sched)) = [] /\
  forall t f, dropped_all (c_trace (final_step e (exec e (init progs) sched) t f)) = [].
Proof. exact borrowed_source_untouched. Qed.
Print Assumptions c19_borrowed_source_untouched.

(** a clone of a slice / range iterator, taken at any position k of its original and driven by any programs
    under any schedule: no position twice, nothing below the position it was taken at, index fidelity, chunk
    contract, end permanence -- by simulation: the clone's run is the tail of a run from position 0 in which
    one extra thread first consumed the prefix *)
From OCI.proofs Require Import CloneSim.
Theorem c19_clone_behaves_like_an_iterator : forall e k progs s c,
  known_env e -> clonable e -> k < W -> wf_progs progs ->
  s_c (c_sh c) = k ->
  nowrap (c_labels (exec e (clone_of c progs) s)) ->
  let tr := c_trace (exec e (clone_of c progs) s) in
  chk_C01_nodup e tr = true /\
  (forall lo cnt, In (lo, cnt) (cov e tr) -> 0 < cnt -> N.min k (e_len e) <= lo) /\
  chk_C02 e tr = true /\
  chk_C03 e tr = true /\
  chk_C05 e tr = true.
Proof. exact clone_properties. Qed.
Print Assumptions c19_clone_behaves_like_an_iterator.
