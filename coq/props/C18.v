(** Property C18 -- statements only.  Every theorem is closed by [exact] of a lemma of the development and
    followed by [Print Assumptions].

    The crash points are part of the environment ([e_crash]: the call of the wrapped iterator's next()
    that panics) and of the programs ([Loop l c (Some k)]: the closure invocation that panics); the
    theorems quantify over all of them. *)
From Coq Require Import ZArith List.
From OCI Require Import Machine Checkers.
From OCI.proofs Require Import ArithOk Trace InvKnown ChkKnown IterBase ChkIter ChkAll Progress IterFair IterLedger Owning.
Import ListNotations.
Open Scope N_scope.

(** no element is delivered twice, whatever panics *)
Theorem c18_no_duplicate : forall e, src_env e -> fused e -> forall progs, wf_progs progs -> forall sched,
  nowrap (c_labels (exec e (init progs) sched)) ->
  chk_C01_nodup e (c_trace (exec e (init progs) sched)) = true.
Proof. exact all_nodup. Qed.
Print Assumptions c18_no_duplicate.

(** the other threads' calls still return: known-size kinds (nobody waits for anybody) *)
Theorem c18_others_return_known_kinds : forall e, known_env e -> forall progs, wf_progs progs ->
  forall sched s t,
  nowrap (c_labels (exec e (init progs) (sched ++ s))) ->
  t_pc (c_pool (exec e (init progs) sched) t) <> PIdle ->
  (budget e (exec e (init progs) sched) t <= count_occ Nat.eq_dec s t)%nat ->
  (rets t (c_trace (exec e (init progs) sched)) < rets t (c_trace (exec e (init progs) (sched ++ s))))%nat.
Proof. exact known_wait_free. Qed.
Print Assumptions c18_others_return_known_kinds.

(** the other threads' calls still return: the wrapped iterator panics at any of its calls *)
Theorem c18_others_return_wrapped_iterator : forall e, iter_env e -> forall progs, wf_progs progs ->
  forall sched blocks,
  let L := nodup Nat.eq_dec (sched ++ concat blocks) in
  nowrap (c_labels (exec e (init progs) (sched ++ concat blocks))) ->
  (forall blk, In blk blocks -> forall t, In t L -> (2 <= count_occ Nat.eq_dec blk t)%nat) ->
  (phi e L (exec e (init progs) sched) < Z.of_nat (length blocks))%Z ->
  (forall t, In t L -> t_pc (c_pool (exec e (init progs) (sched ++ concat blocks)) t) = PIdle /\
                       t_todo (c_pool (exec e (init progs) (sched ++ concat blocks)) t) = []) /\
  n_pending (c_trace (exec e (init progs) (sched ++ concat blocks))) = 0%Z.
Proof. exact iter_fair_termination. Qed.
Print Assumptions c18_others_return_wrapped_iterator.

(** every element of a consumed vector / array is moved out or destroyed exactly once, also when closures panic *)
Theorem c18_ledger_known_kinds : forall e, known_env e -> forall progs, wf_progs progs -> forall sched,
  nowrap (c_labels (exec e (init progs) sched)) ->
  chk_C08 e (c_trace (exec e (init progs) sched)) = true /\
  forall t f, n_pending (c_trace (exec e (init progs) sched)) = 0%Z -> chk_C08 e (c_trace (final_step e (exec e (init progs) sched) t f)) = true.
Proof. intros e He progs Hp sched Hw. split; [exact (known_C08_run e He progs Hp sched Hw)|exact (known_C08_final e He progs Hp sched Hw)]. Qed.
Print Assumptions c18_ledger_known_kinds.

(** the owning wrapper over an arbitrary iterator: the ledger stays exact when the wrapped iterator panics
    at any call and when closures panic *)
From OCI.proofs Require Import IterLedger.
Theorem c18_ledger_wrapped_iterator : forall e, iter_env e -> forall progs, wf_progs progs -> forall sched,
  nowrap (c_labels (exec e (init progs) sched)) ->
  chk_C08 e (c_trace (exec e (init progs) sched)) = true.
Proof. exact iter_C08_run. Qed.
Print Assumptions c18_ledger_wrapped_iterator.

(** every wrapped iterator, fused or not, whatever panics: no position is moved out to two callers *)
Theorem c18_no_duplicate_any_iterator : forall e, iter_env e -> forall progs, wf_progs progs -> forall sched,
  nowrap (c_labels (exec e (init progs) sched)) ->
  pairwise_disj (taken_all e (c_trace (exec e (init progs) sched))) = true.
Proof. exact iter_taken_nodup. Qed.
Print Assumptions c18_no_duplicate_any_iterator.

(** containment at the level of single steps, without hypotheses (any kind, any crash point, any configuration):
    a step of thread [u] records only events of [u] -- its call and its return, the panic report included --
    so the events recorded during a schedule belong to the threads of the schedule, and a thread that takes
    no step is reported nothing: a panic unwinds only the call in which it happened *)
From OCI.proofs Require Import History.
Theorem c18_events_belong_to_scheduled_threads : forall e s c,
  exists evs, c_trace (exec e c s) = evs ++ c_trace c /\
              Forall (fun ev => exists u, In u s /\ ev_by u ev) evs.
Proof. exact events_belong_to_scheduled_threads. Qed.
Print Assumptions c18_events_belong_to_scheduled_threads.

Theorem c18_other_threads_are_reported_nothing : forall e s c t, ~ In t s ->
  exists evs, c_trace (exec e c s) = evs ++ c_trace c /\ Forall (fun ev => ~ ev_by t ev) evs.
Proof. exact unscheduled_thread_gets_no_event. Qed.
Print Assumptions c18_other_threads_are_reported_nothing.
