(** Property C11 -- statements only.  Every theorem is closed by [exact] of a lemma of the development and
    followed by [Print Assumptions]. *)
From Coq Require Import ZArith.
From OCI Require Import Machine Checkers.
From OCI.proofs Require Import ArithOk Trace InvKnown ChkKnown.
From OCI.proofs Require Import GapFree.
Open Scope N_scope.

Check known_C11 : forall e, known_env e -> forall progs, wf_progs progs -> forall sched,
  nowrap (c_labels (exec e (init progs) sched)) ->
  chk_C11 e (c_trace (exec e (init progs) sched)) = true.
Theorem c11_known_kinds : forall e, known_env e -> forall progs, wf_progs progs -> forall sched,
  nowrap (c_labels (exec e (init progs) sched)) ->
  chk_C11 e (c_trace (exec e (init progs) sched)) = true.
Proof. exact known_C11. Qed.
Print Assumptions c11_known_kinds.


(** the wrapper over an arbitrary iterator (exact, inexact and unbounded size hints) *)
From OCI.proofs Require Import IterBase ChkIter IterC11.
Theorem c11_wrapped_iterator : forall e, iter_env e -> fused e -> forall progs, wf_progs progs -> forall sched,
  nowrap (c_labels (exec e (init progs) sched)) ->
  chk_C11 e (c_trace (exec e (init progs) sched)) = true.
Proof. exact iter_C11. Qed.
Print Assumptions c11_wrapped_iterator.

(** every wrapped iterator, fused or not, whose size hint is not exact (inexact or unbounded): the length
    queries answer zero once the completed flag is up and "unknown" before, and a zero is definitive.  (With
    an EXACT size hint and a wrapped iterator that answers None prematurely the claim is false: the query
    answers zero although elements remain.) *)
Theorem c11_wrapped_iterator_any_iterator : forall e, iter_env e -> e_hint e <> HExact -> forall progs, wf_progs progs -> forall sched,
  nowrap (c_labels (exec e (init progs) sched)) ->
  chk_C11 e (c_trace (exec e (init progs) sched)) = true.
Proof. exact iter_C11_inexact. Qed.
Print Assumptions c11_wrapped_iterator_any_iterator.

(** a wrapped iterator that is not fused, any size hint: the length queries are truthful on every run on which the wrapped next() has not yet answered None although elements remain *)
Theorem c11_wrapped_iterator_until_first_gap : forall e, iter_env e -> forall progs, wf_progs progs -> forall sched,
  nowrap (c_labels (exec e (init progs) sched)) ->
  gap_free e (s_calls (c_sh (exec e (init progs) sched))) ->
  check_prop 11 e (c_trace (exec e (init progs) sched)) (c_labels (exec e (init progs) sched)) = true.
Proof. exact iter_C11_until_gap. Qed.
Print Assumptions c11_wrapped_iterator_until_first_gap.
