(** Property C11 -- statements only.  Every theorem is closed by [exact] of a lemma of the development and
    followed by [Print Assumptions]. *)
From Coq Require Import ZArith.
From OCI Require Import Machine Checkers.
From OCI.proofs Require Import ArithOk Trace InvKnown ChkKnown.
Open Scope N_scope.

Check known_C11 : forall e, known_env e -> forall progs, wf_progs progs -> forall sched,
  nowrap (c_labels (exec e (init progs) sched)) ->
  chk_C11 e (c_trace (exec e (init progs) sched)) = true.
Theorem c11_known_kinds : forall e, known_env e -> forall progs, wf_progs progs -> forall sched,
  nowrap (c_labels (exec e (init progs) sched)) ->
  chk_C11 e (c_trace (exec e (init progs) sched)) = true.
Proof. exact known_C11. Qed.
Print Assumptions c11_known_kinds.


(** the wrapper over an arbitrary iterator (exact, inexact and unbounded size hints) *)
From OCI.proofs Require Import IterBase ChkIter IterC11.
Theorem c11_wrapped_iterator : forall e, iter_env e -> forall progs, wf_progs progs -> forall sched,
  nowrap (c_labels (exec e (init progs) sched)) ->
  chk_C11 e (c_trace (exec e (init progs) sched)) = true.
Proof. exact iter_C11. Qed.
Print Assumptions c11_wrapped_iterator.
