(** Property C09 -- statements only.  Every theorem is closed by [exact] of a lemma of the development and
    followed by [Print Assumptions]. *)
From Coq Require Import ZArith List.
From OCI Require Import Machine Checkers.
From OCI.proofs Require Import ArithOk Trace InvKnown ChkKnown IterBase ChkIter Progress IterFair.
Import ListNotations.
Open Scope N_scope.

(** (a) known-size kinds are wait-free: a thread inside a call returns within [budget] of its own steps,
    whatever the other threads do or do not do in between (a thread frozen for ever delays nobody) *)
Theorem c09_known_kinds_wait_free : forall e, known_env e -> forall progs, wf_progs progs ->
  forall sched s t,
  nowrap (c_labels (exec e (init progs) (sched ++ s))) ->
  t_pc (c_pool (exec e (init progs) sched) t) <> PIdle ->
  (budget e (exec e (init progs) sched) t <= count_occ Nat.eq_dec s t)%nat ->
  (rets t (c_trace (exec e (init progs) sched)) < rets t (c_trace (exec e (init progs) (sched ++ s))))%nat.
Proof. exact known_wait_free. Qed.
Print Assumptions c09_known_kinds_wait_free.

(** (b) the wrapper over an arbitrary iterator: every call returns under every fair schedule *)
Theorem c09_wrapped_iterator_fair_termination : forall e, iter_env e -> forall progs, wf_progs progs ->
  forall sched blocks,
  let L := nodup Nat.eq_dec (sched ++ concat blocks) in
  nowrap (c_labels (exec e (init progs) (sched ++ concat blocks))) ->
  (forall blk, In blk blocks -> forall t, In t L -> (2 <= count_occ Nat.eq_dec blk t)%nat) ->
  (phi e L (exec e (init progs) sched) < Z.of_nat (length blocks))%Z ->
  (forall t, In t L -> t_pc (c_pool (exec e (init progs) (sched ++ concat blocks)) t) = PIdle /\
                       t_todo (c_pool (exec e (init progs) (sched ++ concat blocks)) t) = []) /\
  n_pending (c_trace (exec e (init progs) (sched ++ concat blocks))) = 0%Z.
Proof. exact iter_fair_termination. Qed.
Print Assumptions c09_wrapped_iterator_fair_termination.

(** frame for the frozen thread: a thread that takes no step keeps its local state whatever the other threads
    do (any kind, any configuration, any schedule that does not name it) -- together with the wait-freedom
    theorem: suspended for arbitrarily long, it neither delays the others nor is disturbed by them, and it
    resumes exactly where it stopped *)
From OCI.proofs Require Import History.
Theorem c09_suspended_thread_is_untouched : forall e s c t,
  ~ In t s -> c_pool (exec e c s) t = c_pool c t.
Proof. exact unscheduled_thread_untouched. Qed.
Print Assumptions c09_suspended_thread_is_untouched.

(** stuttering: once the scheduled threads have finished their programs (the state the fair-termination theorem
    reaches), scheduling them further changes nothing at all -- shared state, local states, trace, labels *)
Theorem c09_finished_threads_do_nothing : forall e s c,
  (forall t, In t s -> t_pc (c_pool c t) = PIdle /\ t_todo (c_pool c t) = []) -> exec e c s = c.
Proof. exact finished_threads_do_nothing. Qed.
Print Assumptions c09_finished_threads_do_nothing.
