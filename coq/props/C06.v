(** Property C06 -- statements only.  Every theorem is closed by [exact] of a lemma of the development and
    followed by [Print Assumptions]. *)
From Coq Require Import ZArith.
From OCI Require Import Machine Checkers.
From OCI.proofs Require Import ArithOk Trace InvKnown ChkKnown IterBase ChkIter ChkAll.
From OCI.proofs Require Import GapFree.
Open Scope N_scope.

Check all_C06 : forall e, src_env e -> fused e -> forall progs, wf_progs progs -> forall sched,
  nowrap (c_labels (exec e (init progs) sched)) ->
  check_prop 6 e (c_trace (exec e (init progs) sched)) (c_labels (exec e (init progs) sched)) = true.
Theorem c06_skip_to_end : forall e, src_env e -> fused e -> forall progs, wf_progs progs -> forall sched,
  nowrap (c_labels (exec e (init progs) sched)) ->
  check_prop 6 e (c_trace (exec e (init progs) sched)) (c_labels (exec e (init progs) sched)) = true.
Proof. exact all_C06. Qed.
Print Assumptions c06_skip_to_end.

(** the stopping clause for every wrapped iterator, fused or not: after skip_to_end has returned, no call
    delivers an element, pulls report the end, the length queries answer zero *)
Theorem c06_skip_stops_any_iterator : forall e, iter_env e -> forall progs, wf_progs progs -> forall sched,
  nowrap (c_labels (exec e (init progs) sched)) ->
  chk_C06_stop e (c_trace (exec e (init progs) sched)) = true.
Proof. exact iter_C06_stop. Qed.
Print Assumptions c06_skip_stops_any_iterator.

(** a wrapped iterator that is not fused: the whole of C06, on every run on which the wrapped next() has not yet answered None although elements remain *)
Theorem c06_skip_to_end_until_first_gap : forall e, iter_env e -> forall progs, wf_progs progs -> forall sched,
  nowrap (c_labels (exec e (init progs) sched)) ->
  gap_free e (s_calls (c_sh (exec e (init progs) sched))) ->
  check_prop 6 e (c_trace (exec e (init progs) sched)) (c_labels (exec e (init progs) sched)) = true.
Proof. exact iter_C06_until_gap. Qed.
Print Assumptions c06_skip_to_end_until_first_gap.

(** ** after the repair of the waiting loop (a thread that finds its ticket at the yielded counter looks at
    the completed flag once more before it uses the wrapped iterator): nothing is delivered after the first
    None of the wrapped iterator, premature or not ([C07.c07_no_call_after_none]) *)
From OCI.proofs Require Import AfterNone.

(** every wrapped iterator, fused or not: the whole of C06, on every run *)
Theorem c06_skip_to_end_any_iterator : forall e, iter_env e -> forall progs, wf_progs progs -> forall sched,
  nowrap (c_labels (exec e (init progs) sched)) ->
  check_prop 6 e (c_trace (exec e (init progs) sched)) (c_labels (exec e (init progs) sched)) = true.
Proof. exact iter_C06_any. Qed.
Print Assumptions c06_skip_to_end_any_iterator.
