(** Property C06 -- statements only.  Every theorem is closed by [exact] of a lemma of the development and
    followed by [Print Assumptions]. *)
From Coq Require Import ZArith.
From OCI Require Import Machine Checkers.
From OCI.proofs Require Import ArithOk Trace InvKnown ChkKnown IterBase ChkIter ChkAll.
Open Scope N_scope.

Check all_C06 : forall e, src_env e -> forall progs, wf_progs progs -> forall sched,
  nowrap (c_labels (exec e (init progs) sched)) ->
  check_prop 6 e (c_trace (exec e (init progs) sched)) (c_labels (exec e (init progs) sched)) = true.
Theorem c06_skip_to_end : forall e, src_env e -> forall progs, wf_progs progs -> forall sched,
  nowrap (c_labels (exec e (init progs) sched)) ->
  check_prop 6 e (c_trace (exec e (init progs) sched)) (c_labels (exec e (init progs) sched)) = true.
Proof. exact all_C06. Qed.
Print Assumptions c06_skip_to_end.

