(** Property C08 -- statements only.  Every theorem is closed by [exact] of a lemma of the development and
    followed by [Print Assumptions]. *)
From Coq Require Import ZArith.
From OCI Require Import Machine Checkers.
From OCI.proofs Require Import ArithOk Trace InvKnown ChkKnown.
Open Scope N_scope.

Check known_C08_run : forall e, known_env e -> forall progs, wf_progs progs -> forall sched,
  nowrap (c_labels (exec e (init progs) sched)) ->
  chk_C08 e (c_trace (exec e (init progs) sched)) = true.
Theorem c08_known_kinds_run : forall e, known_env e -> forall progs, wf_progs progs -> forall sched,
  nowrap (c_labels (exec e (init progs) sched)) ->
  chk_C08 e (c_trace (exec e (init progs) sched)) = true.
Proof. exact known_C08_run. Qed.
Print Assumptions c08_known_kinds_run.

Check known_C08_final : forall e, known_env e -> forall progs, wf_progs progs -> forall sched,
  nowrap (c_labels (exec e (init progs) sched)) ->
  forall t f, n_pending (c_trace (exec e (init progs) sched)) = 0%Z -> chk_C08 e (c_trace (final_step e (exec e (init progs) sched) t f)) = true.
Theorem c08_known_kinds_end_of_life : forall e, known_env e -> forall progs, wf_progs progs -> forall sched,
  nowrap (c_labels (exec e (init progs) sched)) ->
  forall t f, n_pending (c_trace (exec e (init progs) sched)) = 0%Z -> chk_C08 e (c_trace (final_step e (exec e (init progs) sched) t f)) = true.
Proof. exact known_C08_final. Qed.
Print Assumptions c08_known_kinds_end_of_life.


(** the wrapper over an arbitrary iterator, owning or not, with its buffered chunks (stale slots), panics
    of the wrapped iterator and of the closures *)
From OCI.proofs Require Import IterBase ChkIter IterLedger.
Theorem c08_wrapped_iterator_run : forall e, iter_env e -> forall progs, wf_progs progs -> forall sched,
  nowrap (c_labels (exec e (init progs) sched)) ->
  chk_C08 e (c_trace (exec e (init progs) sched)) = true.
Proof. exact iter_C08_run. Qed.
Print Assumptions c08_wrapped_iterator_run.

Theorem c08_wrapped_iterator_end_of_life : forall e, iter_env e -> forall progs, wf_progs progs -> forall sched,
  nowrap (c_labels (exec e (init progs) sched)) ->
  n_pending (c_trace (exec e (init progs) sched)) = 0%Z ->
  (forall t, In t (nodup Nat.eq_dec sched) -> t_buf (c_pool (exec e (init progs) sched) t) = None) ->
  forall t f, chk_C08 e (c_trace (final_step e (exec e (init progs) sched) t f)) = true.
Proof. exact iter_C08_final. Qed.
Print Assumptions c08_wrapped_iterator_end_of_life.
