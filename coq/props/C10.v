(** Property C10 -- statements only.  Every theorem is closed by [exact] of a lemma of the development and
    followed by [Print Assumptions]. *)
From Coq Require Import ZArith.
From OCI Require Import Machine Checkers.
From OCI.proofs Require Import ArithOk Trace InvKnown ChkKnown.
Open Scope N_scope.

Check known_C10_final : forall e, known_env e -> forall progs, wf_progs progs -> forall sched,
  nowrap (c_labels (exec e (init progs) sched)) ->
  forall t k, n_pending (c_trace (exec e (init progs) sched)) = 0%Z -> chk_C10 e (c_trace (final_step e (exec e (init progs) sched) t (FIntoSeq k))) = true.
Theorem c10_known_kinds : forall e, known_env e -> forall progs, wf_progs progs -> forall sched,
  nowrap (c_labels (exec e (init progs) sched)) ->
  forall t k, n_pending (c_trace (exec e (init progs) sched)) = 0%Z -> chk_C10 e (c_trace (final_step e (exec e (init progs) sched) t (FIntoSeq k))) = true.
Proof. exact known_C10_final. Qed.
Print Assumptions c10_known_kinds.


(** the wrapper over an arbitrary iterator *)
From OCI.proofs Require Import IterBase ChkIter IterQuiet.
Theorem c10_wrapped_iterator : forall e, iter_env e -> forall progs, wf_progs progs -> forall sched,
  nowrap (c_labels (exec e (init progs) sched)) ->
  forall t k, n_pending (c_trace (exec e (init progs) sched)) = 0%Z ->
  chk_C10 e (c_trace (final_step e (exec e (init progs) sched) t (FIntoSeq k))) = true.
Proof. exact iter_C10_final. Qed.
Print Assumptions c10_wrapped_iterator.
