(** Property C01 -- statements only.  Every theorem is closed by [exact] of a lemma of the development and
    followed by [Print Assumptions]. *)
From Coq Require Import ZArith.
From OCI Require Import Machine Checkers.
From OCI.proofs Require Import ArithOk Trace InvKnown ChkKnown IterBase ChkIter ChkAll.
Open Scope N_scope.

Check all_C01 : forall e, src_env e -> forall progs, wf_progs progs -> forall sched,
  nowrap (c_labels (exec e (init progs) sched)) ->
  check_prop 1 e (c_trace (exec e (init progs) sched)) (c_labels (exec e (init progs) sched)) = true.
Theorem c01_exactly_once : forall e, src_env e -> forall progs, wf_progs progs -> forall sched,
  nowrap (c_labels (exec e (init progs) sched)) ->
  check_prop 1 e (c_trace (exec e (init progs) sched)) (c_labels (exec e (init progs) sched)) = true.
Proof. exact all_C01. Qed.
Print Assumptions c01_exactly_once.

