(** Property C01 -- statements only.  Every theorem is closed by [exact] of a lemma of the development and
    followed by [Print Assumptions]. *)
From Coq Require Import ZArith List.
From OCI Require Import Machine Checkers.
From OCI.proofs Require Import ArithOk Trace InvKnown ChkKnown IterBase ChkIter ChkAll IterLedger Owning IterQuiet.
From OCI.proofs Require Import GapFree.
Open Scope N_scope.

Check all_C01 : forall e, src_env e -> fused e -> forall progs, wf_progs progs -> forall sched,
  nowrap (c_labels (exec e (init progs) sched)) ->
  check_prop 1 e (c_trace (exec e (init progs) sched)) (c_labels (exec e (init progs) sched)) = true.
Theorem c01_exactly_once : forall e, src_env e -> fused e -> forall progs, wf_progs progs -> forall sched,
  nowrap (c_labels (exec e (init progs) sched)) ->
  check_prop 1 e (c_trace (exec e (init progs) sched)) (c_labels (exec e (init progs) sched)) = true.
Proof. exact all_C01. Qed.
Print Assumptions c01_exactly_once.

(** every wrapped iterator, fused or not, owning its elements or not: no position is moved out to two
    callers.  (The checker [chk_C01_nodup] itself accounts for the elements of a chunk that the caller left
    in it by the INDEX of the chunk and for the others by their VALUE; indices and values differed once a
    wrapped iterator that is not fused had answered None prematurely, as long as a waiting thread could still
    be served after that answer; since the waiting loop looks at the completed flag once more, nothing is
    delivered after the first None and the checker itself holds for every wrapped iterator:
    [c01_no_duplicate_checker_any_iterator] below, [Examples.gap_mixed_accounting_repaired].  The no-loss half is
    false for such an iterator: the end is reported while elements remain, [Examples.gap_hypotheses_hold].) *)
Theorem c01_no_duplicate_any_iterator : forall e, iter_env e -> forall progs, wf_progs progs -> forall sched,
  nowrap (c_labels (exec e (init progs) sched)) ->
  pairwise_disj (taken_all e (c_trace (exec e (init progs) sched))) = true.
Proof. exact iter_taken_nodup. Qed.
Print Assumptions c01_no_duplicate_any_iterator.

(** the generalised no-loss half, for the wrapped iterators that own their elements: at every quiescent
    point at which no thread keeps a buffered iterator, the positions moved out to callers and the positions
    destroyed tile [0, cursor) -- everything the wrapped iterator has ever yielded is delivered (or
    destroyed) exactly once, whatever it answered in between *)
Theorem c01_yielded_exactly_once_any_iterator : forall e, iter_env e -> e_owning e = true -> forall progs, wf_progs progs -> forall sched,
  nowrap (c_labels (exec e (init progs) sched)) ->
  n_pending (c_trace (exec e (init progs) sched)) = 0%Z ->
  (forall t, In t (nodup Nat.eq_dec sched) -> t_buf (c_pool (exec e (init progs) sched) t) = None) ->
  tiles (s_cur (c_sh (exec e (init progs) sched)))
        (taken_all e (c_trace (exec e (init progs) sched)) ++ dropped_all (c_trace (exec e (init progs) sched))) = true.
Proof. exact iter_yielded_exactly_once. Qed.
Print Assumptions c01_yielded_exactly_once_any_iterator.

(** the count version for every wrapped iterator, owning or not: at every quiescent point of a run without
    panics, as many elements have been delivered as the wrapped iterator has yielded *)
Theorem c01_delivered_count_any_iterator : forall e, iter_env e -> forall progs, wf_progs progs -> forall sched,
  nowrap (c_labels (exec e (init progs) sched)) ->
  n_pending (c_trace (exec e (init progs) sched)) = 0%Z ->
  has_panic (c_trace (exec e (init progs) sched)) = false ->
  iv_total (cov e (c_trace (exec e (init progs) sched))) = s_cur (c_sh (exec e (init progs) sched)).
Proof. exact iter_delivered_count. Qed.
Print Assumptions c01_delivered_count_any_iterator.

(** a wrapped iterator that is not fused: exactly-once delivery in full, on every run up to (and including) the state in which the wrapped next() first answers None although elements remain -- [gap_free e n]: none of the first [n] calls of the wrapped next() is such an answer *)
Theorem c01_exactly_once_until_first_gap : forall e, iter_env e -> forall progs, wf_progs progs -> forall sched,
  nowrap (c_labels (exec e (init progs) sched)) ->
  gap_free e (s_calls (c_sh (exec e (init progs) sched))) ->
  check_prop 1 e (c_trace (exec e (init progs) sched)) (c_labels (exec e (init progs) sched)) = true.
Proof. exact iter_C01_until_gap. Qed.
Print Assumptions c01_exactly_once_until_first_gap.

(** ** after the repair of the waiting loop (a thread that finds its ticket at the yielded counter looks at
    the completed flag once more before it uses the wrapped iterator): nothing is delivered after the first
    None of the wrapped iterator, premature or not ([C07.c07_no_call_after_none]) *)
From OCI.proofs Require Import AfterNone.

(** every wrapped iterator, fused or not: the no-duplicate half of the checker of C01 itself *)
Theorem c01_no_duplicate_checker_any_iterator : forall e, iter_env e -> forall progs, wf_progs progs -> forall sched,
  nowrap (c_labels (exec e (init progs) sched)) ->
  chk_C01_nodup e (c_trace (exec e (init progs) sched)) = true.
Proof. exact iter_nodup_any. Qed.
Print Assumptions c01_no_duplicate_checker_any_iterator.

(** a wrapped iterator whose first premature None is the answer to call number [g] ([first_gap e g]: no
    earlier call is such an answer): exactly-once delivery in full on EVERY run, with the length of the
    source replaced by the number of elements yielded before that call ([cut e g]: [e] with
    [e_len := min (e_len e) g], fused) *)
Theorem c01_exactly_once_any_iterator : forall e, iter_env e -> forall g, first_gap e g -> forall progs, wf_progs progs -> forall sched,
  nowrap (c_labels (exec e (init progs) sched)) ->
  check_prop 1 (cut e g) (c_trace (exec e (init progs) sched)) (c_labels (exec e (init progs) sched)) = true.
Proof. exact iter_C01_after_gap. Qed.
Print Assumptions c01_exactly_once_any_iterator.

(** for ANY wrapped iterator the run is the run of a fused one: an environment [e'] that differs from [e] in
    [e_gap] and in the number of elements of the source only (it is not larger), whose run goes through the
    same states with the same label stream and the same history up to the numbers the length queries answer
    ([sim]; with an exact size hint those report the length the iterator announced), and on which the
    checkers of C01, C02, C03, C04, C06 and C12 hold *)
Theorem c01_any_iterator_runs_as_fused : forall e, iter_env e -> forall progs, wf_progs progs -> forall sched,
  nowrap (c_labels (exec e (init progs) sched)) ->
  exists e', iter_env e' /\ fused e' /\ same_but_len e e' /\
    sim (exec e (init progs) sched) (exec e' (init progs) sched) /\
    let tr := c_trace (exec e (init progs) sched) in
    let ls := c_labels (exec e (init progs) sched) in
    check_prop 1 e' tr ls = true /\ check_prop 2 e' tr ls = true /\ check_prop 3 e' tr ls = true /\
    check_prop 4 e' tr ls = true /\ check_prop 6 e' tr ls = true /\ check_prop 12 e' tr ls = true.
Proof. exact iter_runs_as_fused. Qed.
Print Assumptions c01_any_iterator_runs_as_fused.

(** a size hint that is not exact (inexact or unbounded): the run of a wrapped iterator whose first premature
    None is the answer to call number [g] IS the run of the fused iterator [cut e g], configuration for
    configuration (shared state, threads, history and label stream).  (With an exact size hint the length
    queries report the length the iterator announced, which [cut] changes: see [sim] above.) *)
Theorem c01_any_iterator_same_run : forall e, iter_env e -> e_hint e <> HExact -> forall g, first_gap e g ->
  forall progs, wf_progs progs -> forall sched,
  nowrap (c_labels (exec e (init progs) sched)) ->
  exec (cut e g) (init progs) sched = exec e (init progs) sched.
Proof. exact iter_cut_same_run. Qed.
Print Assumptions c01_any_iterator_same_run.
