(** Property C01 -- statements only.  Every theorem is closed by [exact] of a lemma of the development and
    followed by [Print Assumptions]. *)
From Coq Require Import ZArith List.
From OCI Require Import Machine Checkers.
From OCI.proofs Require Import ArithOk Trace InvKnown ChkKnown IterBase ChkIter ChkAll IterLedger Owning IterQuiet.
From OCI.proofs Require Import GapFree.
Open Scope N_scope.

Check all_C01 : forall e, src_env e -> fused e -> forall progs, wf_progs progs -> forall sched,
  nowrap (c_labels (exec e (init progs) sched)) ->
  check_prop 1 e (c_trace (exec e (init progs) sched)) (c_labels (exec e (init progs) sched)) = true.
Theorem c01_exactly_once : forall e, src_env e -> fused e -> forall progs, wf_progs progs -> forall sched,
  nowrap (c_labels (exec e (init progs) sched)) ->
  check_prop 1 e (c_trace (exec e (init progs) sched)) (c_labels (exec e (init progs) sched)) = true.
Proof. exact all_C01. Qed.
Print Assumptions c01_exactly_once.

(** every wrapped iterator, fused or not, owning its elements or not: no position is moved out to two
    callers.  (The checker [chk_C01_nodup] itself accounts for the elements of a chunk that the caller left
    in it by the INDEX of the chunk and for the others by their VALUE; indices and values differ once a
    wrapped iterator that is not fused has answered None prematurely, and the checker then objects to runs
    on which nothing is delivered twice: [Examples.gap_breaks_the_mixed_accounting].  The no-loss half is
    false for such an iterator: the end is reported while elements remain, [Examples.gap_hypotheses_hold].) *)
Theorem c01_no_duplicate_any_iterator : forall e, iter_env e -> forall progs, wf_progs progs -> forall sched,
  nowrap (c_labels (exec e (init progs) sched)) ->
  pairwise_disj (taken_all e (c_trace (exec e (init progs) sched))) = true.
Proof. exact iter_taken_nodup. Qed.
Print Assumptions c01_no_duplicate_any_iterator.

(** the generalised no-loss half, for the wrapped iterators that own their elements: at every quiescent
    point at which no thread keeps a buffered iterator, the positions moved out to callers and the positions
    destroyed tile [0, cursor) -- everything the wrapped iterator has ever yielded is delivered (or
    destroyed) exactly once, whatever it answered in between *)
Theorem c01_yielded_exactly_once_any_iterator : forall e, iter_env e -> e_owning e = true -> forall progs, wf_progs progs -> forall sched,
  nowrap (c_labels (exec e (init progs) sched)) ->
  n_pending (c_trace (exec e (init progs) sched)) = 0%Z ->
  (forall t, In t (nodup Nat.eq_dec sched) -> t_buf (c_pool (exec e (init progs) sched) t) = None) ->
  tiles (s_cur (c_sh (exec e (init progs) sched)))
        (taken_all e (c_trace (exec e (init progs) sched)) ++ dropped_all (c_trace (exec e (init progs) sched))) = true.
Proof. exact iter_yielded_exactly_once. Qed.
Print Assumptions c01_yielded_exactly_once_any_iterator.

(** the count version for every wrapped iterator, owning or not: at every quiescent point of a run without
    panics, as many elements have been delivered as the wrapped iterator has yielded *)
Theorem c01_delivered_count_any_iterator : forall e, iter_env e -> forall progs, wf_progs progs -> forall sched,
  nowrap (c_labels (exec e (init progs) sched)) ->
  n_pending (c_trace (exec e (init progs) sched)) = 0%Z ->
  has_panic (c_trace (exec e (init progs) sched)) = false ->
  iv_total (cov e (c_trace (exec e (init progs) sched))) = s_cur (c_sh (exec e (init progs) sched)).
Proof. exact iter_delivered_count. Qed.
Print Assumptions c01_delivered_count_any_iterator.

(** a wrapped iterator that is not fused: exactly-once delivery in full, on every run up to (and including) the state in which the wrapped next() first answers None although elements remain -- [gap_free e n]: none of the first [n] calls of the wrapped next() is such an answer *)
Theorem c01_exactly_once_until_first_gap : forall e, iter_env e -> forall progs, wf_progs progs -> forall sched,
  nowrap (c_labels (exec e (init progs) sched)) ->
  gap_free e (s_calls (c_sh (exec e (init progs) sched))) ->
  check_prop 1 e (c_trace (exec e (init progs) sched)) (c_labels (exec e (init progs) sched)) = true.
Proof. exact iter_C01_until_gap. Qed.
Print Assumptions c01_exactly_once_until_first_gap.
