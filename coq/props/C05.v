(** Property C05 -- statements only.  Every theorem is closed by [exact] of a lemma of the development and
    followed by [Print Assumptions]. *)
From Coq Require Import ZArith.
From OCI Require Import Machine Checkers.
From OCI.proofs Require Import ArithOk Trace InvKnown ChkKnown IterBase ChkIter ChkAll.
Open Scope N_scope.

Check all_C05 : forall e, src_env e -> forall progs, wf_progs progs -> forall sched,
  nowrap (c_labels (exec e (init progs) sched)) ->
  chk_C05 e (c_trace (exec e (init progs) sched)) = true.
Theorem c05_end_is_permanent : forall e, src_env e -> forall progs, wf_progs progs -> forall sched,
  nowrap (c_labels (exec e (init progs) sched)) ->
  chk_C05 e (c_trace (exec e (init progs) sched)) = true.
Proof. exact all_C05. Qed.
Print Assumptions c05_end_is_permanent.

(** the wrapper over an arbitrary iterator that need NOT be fused: [iter_env] says nothing about [e_gap]
    (the calls of the wrapped next() that answer None although elements remain), and nothing about it is
    assumed.  Once a pull has reported the end, no call made afterwards delivers an element, reports
    anything but the end, or announces a positive length -- even if the wrapped iterator would yield again *)
Theorem c05_end_is_permanent_any_iterator : forall e, iter_env e -> forall progs, wf_progs progs -> forall sched,
  nowrap (c_labels (exec e (init progs) sched)) ->
  check_prop 5 e (c_trace (exec e (init progs) sched)) (c_labels (exec e (init progs) sched)) = true.
Proof. exact iter_C05. Qed.
Print Assumptions c05_end_is_permanent_any_iterator.

(** state level, without hypotheses (any kind, any configuration, no [nowrap]): the completed flag of the wrapper
    over an arbitrary iterator is never reset -- true after the schedule [a], it is true after [a ++ b] *)
From OCI.proofs Require Import Progress History.
Theorem c05_completed_flag_is_permanent : forall e c a b,
  s_f (c_sh (exec e c a)) = true -> s_f (c_sh (exec e c (a ++ b))) = true.
Proof. exact completed_flag_is_permanent. Qed.
Print Assumptions c05_completed_flag_is_permanent.
