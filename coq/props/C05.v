(** Property C05 -- statements only.  Every theorem is closed by [exact] of a lemma of the development and
    followed by [Print Assumptions]. *)
From Coq Require Import ZArith.
From OCI Require Import Machine Checkers.
From OCI.proofs Require Import ArithOk Trace InvKnown ChkKnown.
Open Scope N_scope.

Check known_C05 : forall e, known_env e -> forall progs, wf_progs progs -> forall sched,
  nowrap (c_labels (exec e (init progs) sched)) ->
  chk_C05 e (c_trace (exec e (init progs) sched)) = true.
Theorem c05_known_kinds : forall e, known_env e -> forall progs, wf_progs progs -> forall sched,
  nowrap (c_labels (exec e (init progs) sched)) ->
  chk_C05 e (c_trace (exec e (init progs) sched)) = true.
Proof. exact known_C05. Qed.
Print Assumptions c05_known_kinds.

