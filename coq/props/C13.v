(** Property C13 -- statements only.  Every theorem is closed by [exact] of a lemma of the development and
    followed by [Print Assumptions]. *)
From Coq Require Import ZArith.
From OCI Require Import Machine Checkers.
From OCI.proofs Require Import ArithOk Trace InvKnown ChkKnown Adaptor.
Open Scope N_scope.

Theorem c13_adaptor_transparent : forall e a progs sched t f,
  exec (with_adaptor e a) (init progs) sched = exec e (init progs) sched /\
  final_step (with_adaptor e a) (exec (with_adaptor e a) (init progs) sched) t f =
  final_step e (exec e (init progs) sched) t f.
Proof. exact adaptor_transparent. Qed.
Print Assumptions c13_adaptor_transparent.

Theorem c13_source_untouched : forall e, known_env e -> e_owning e = false ->
  forall progs, wf_progs progs -> forall sched,
  nowrap (c_labels (exec e (init progs) sched)) ->
  iv_total (dropped_all (c_trace (exec e (init progs) sched))) = 0 /\
  forall t f, n_pending (c_trace (exec e (init progs) sched)) = 0%Z ->
              iv_total (dropped_all (c_trace (final_step e (exec e (init progs) sched) t f))) = 0.
Proof. exact source_untouched. Qed.
Print Assumptions c13_source_untouched.

(** every kind, the wrapper over an iterator of references included: a borrowed source is never touched
    (no hypothesis on the run at all) *)
From OCI.proofs Require Import Borrowed.
Theorem c13_borrowed_source_untouched : forall e, e_owning e = false -> forall progs sched,
  dropped_all (c_trace (exec e (init progs) sched)) = [] /\
  forall t f, dropped_all (c_trace (final_step e (exec e (init progs) sched) t f)) = [].
Proof. exact borrowed_source_untouched. Qed.
Print Assumptions c13_borrowed_source_untouched.

(** the source of the adaptors is the reviewed forwarding code (regenerated from cloned.rs, copied.rs and the
    two buffered-chunk adaptors on every run): this is what justifies giving them no behaviour in the model *)
From Coq Require Import List String.
From OCI.gen Require Import Adaptors.
From OCI.proofs Require Import AdaptorsOk.
Theorem c13_adaptors_are_the_reviewed_forwarders :
  adaptor_methods = reviewed_adaptor_methods /\ forallb forwards reviewed_adaptor_methods = true /\
  existsb (fun m => has_sub "::fetch_one"%string (fst m)) reviewed_adaptor_methods = false.
Proof. exact (conj adaptors_are_the_reviewed_forwarders (conj reviewed_methods_forward fetch_one_not_overridden)). Qed.
Print Assumptions c13_adaptors_are_the_reviewed_forwarders.
