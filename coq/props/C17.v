(** Property C17 -- statements only.  Every theorem is closed by [exact] of a lemma of the development and
    followed by [Print Assumptions]. *)
From Coq Require Import ZArith.
From OCI Require Import Machine Checkers.
From OCI.proofs Require Import ArithOk Trace InvKnown ChkKnown.
Open Scope N_scope.

Check k_pull_modes : forall e q b, wf_env e -> wf_req q ->
  k_pull (with_mode e Checked) q b = k_pull (with_mode e Wrapping) q b.
Theorem c17_pull_same_in_both_modes : forall e q b, wf_env e -> wf_req q ->
  k_pull (with_mode e Checked) q b = k_pull (with_mode e Wrapping) q b.
Proof. exact k_pull_modes. Qed.
Print Assumptions c17_pull_same_in_both_modes.

