(** Property C17 -- statements only.  Every theorem is closed by [exact] of a lemma of the development and
    followed by [Print Assumptions]. *)
From Coq Require Import ZArith.
From OCI Require Import Machine Checkers.
From OCI.proofs Require Import ArithOk Trace InvKnown ChkKnown.
Open Scope N_scope.

Check k_pull_modes : forall e q b, wf_env e -> wf_req q ->
  k_pull (with_mode e Checked) q b = k_pull (with_mode e Wrapping) q b.
Theorem c17_pull_same_in_both_modes : forall e q b, wf_env e -> wf_req q ->
  k_pull (with_mode e Checked) q b = k_pull (with_mode e Wrapping) q b.
Proof. exact k_pull_modes. Qed.
Print Assumptions c17_pull_same_in_both_modes.


(** run level: when no operation asks for a chunk size of zero, nothing panics at all on any run of a
    known-size kind, in either overflow mode (the environment's mode is arbitrary) *)
From OCI.proofs Require Import RunC16.
Theorem c17_no_panic_known_kinds : forall e, known_env e -> forall progs, wf_progs progs -> plain_progs progs ->
  (forall t, Forall op_nz (progs t)) -> forall sched,
  nowrap (c_labels (exec e (init progs) sched)) ->
  chk_no_panic (c_trace (exec e (init progs) sched)) = true.
Proof. exact known_C17_no_panic. Qed.
Print Assumptions c17_no_panic_known_kinds.

From OCI.proofs Require Import IterBase ChkIter IterRunC16.
Theorem c17_no_panic_wrapped_iterator : forall e, iter_env e -> e_crash e = None -> forall progs, wf_progs progs -> plain_progs progs ->
  (forall t, Forall op_nz (progs t)) -> forall sched,
  nowrap (c_labels (exec e (init progs) sched)) ->
  chk_no_panic (c_trace (exec e (init progs) sched)) = true.
Proof. exact iter_C17_no_panic. Qed.
Print Assumptions c17_no_panic_wrapped_iterator.

(** the main clause, at the level of whole runs: the run and the end of life of the model do not depend on the
    overflow mode -- every source kind, every program, every schedule that does not wrap the counters *)
From OCI.proofs Require Import ChkAll ModeIndep.
Theorem c17_runs_mode_independent : forall e, src_env e -> forall progs, wf_progs progs -> forall sched,
  nowrap (c_labels (exec e (init progs) sched)) ->
  forall m, exec (with_mode e m) (init progs) sched = exec e (init progs) sched.
Proof. exact exec_mode_independent. Qed.
Print Assumptions c17_runs_mode_independent.

Theorem c17_end_of_life_mode_independent : forall e, src_env e -> forall progs, wf_progs progs -> forall sched,
  nowrap (c_labels (exec e (init progs) sched)) ->
  forall m t f, final_step (with_mode e m) (exec (with_mode e m) (init progs) sched) t f =
                final_step e (exec e (init progs) sched) t f.
Proof. exact final_mode_independent. Qed.
Print Assumptions c17_end_of_life_mode_independent.
