// C08 / C09 run-time probe: an element whose DESTRUCTOR panics (once, when the iterator machinery destroys it).
// Whatever the machinery was destroying at that moment (the rest of an abandoned chunk, the stale slots of a buffered
// iterator, the skipped elements, the remainder held by the iterator or by into_seq_iter) must still be destroyed
// exactly once -- never twice, never not at all --, and pulls made afterwards, on any thread, must return.
use orx_concurrent_iter::*;
use std::panic::{catch_unwind, AssertUnwindSafe};
use std::sync::atomic::{AtomicUsize, Ordering};
use std::sync::Mutex;

static DROPS: Mutex<Vec<u64>> = Mutex::new(Vec::new());
static BOMB: AtomicUsize = AtomicUsize::new(usize::MAX);

struct E(u64);
impl Drop for E {
    fn drop(&mut self) {
        DROPS.lock().unwrap().push(self.0);
        if self.0 as usize == BOMB.load(Ordering::SeqCst) && !std::thread::panicking() {
            panic!("probe: the destructor of an element panics");
        }
    }
}

fn vecn(n: u64) -> Vec<E> {
    (0..n).map(E).collect()
}

/// runs the scenario; `forgotten` are the elements the scenario hands out and forgets (they are never dropped)
fn run(bad: &mut Vec<String>, name: &str, n: u64, bomb: usize, forgotten: &[u64], f: impl FnOnce()) {
    DROPS.lock().unwrap().clear();
    BOMB.store(bomb, Ordering::SeqCst);
    let _ = catch_unwind(AssertUnwindSafe(f));
    BOMB.store(usize::MAX, Ordering::SeqCst);
    let d = DROPS.lock().unwrap().clone();
    for i in 0..n {
        let c = d.iter().filter(|x| **x == i).count();
        let want = if forgotten.contains(&i) { 0 } else { 1 };
        if c != want {
            bad.push(format!("{} (destructor of element {} panics): element {} destroyed {} times, expected {}", name, bomb, i, c, want));
        }
    }
}

fn later_pull_returns<C: ConcurrentIter<Item = E> + Sync>(bad: &mut Vec<String>, name: &str, it: &C) {
    let (tx, rx) = std::sync::mpsc::channel();
    std::thread::scope(|s| {
        s.spawn(move || {
            let r = it.next().map(|e| {
                let v = e.0;
                std::mem::forget(e);
                v
            });
            let _ = tx.send(r);
        });
        if rx.recv_timeout(std::time::Duration::from_secs(20)).is_err() {
            bad.push(format!("{}: a pull made after the panic did not return within 20 s", name));
            std::process::exit({
                println!("{}", bad.join("\n"));
                println!("VERDICT: VIOLATION a pull made after a destructor panicked does not return");
                0
            });
        }
    });
}

fn main() {
    std::panic::set_hook(Box::new(|_| {}));
    let mut bad: Vec<String> = vec![];
    let n = 8u64;
    for bomb in 0..n as usize {
        run(&mut bad, "vec: two pulls, then the iterator is dropped", n, bomb, &[0, 1], || {
            let it = vecn(n).into_con_iter();
            std::mem::forget(it.next());
            std::mem::forget(it.next());
            drop(it);
        });
        run(&mut bad, "array: nothing pulled, the iterator is dropped", n, bomb, &[], || {
            let arr: [E; 8] = std::array::from_fn(|i| E(i as u64));
            drop(arr.into_con_iter());
        });
        run(&mut bad, "array: two pulls, then the iterator is dropped", n, bomb, &[0, 1], || {
            let arr: [E; 8] = std::array::from_fn(|i| E(i as u64));
            let it = arr.into_con_iter();
            std::mem::forget(it.next());
            std::mem::forget(it.next());
            drop(it);
        });
        run(&mut bad, "vec: a chunk of 4 abandoned after one element", n, bomb, &[0], || {
            let it = vecn(n).into_con_iter();
            {
                let mut c = it.next_chunk(4).unwrap();
                std::mem::forget(c.values.next());
            }
            drop(it);
        });
        run(&mut bad, "vec: skip_to_end on a fresh iterator", n, bomb, &[], || {
            let it = vecn(n).into_con_iter();
            it.skip_to_end();
            drop(it);
        });
        run(&mut bad, "array: into_seq_iter after two pulls, remainder dropped", n, bomb, &[0, 1], || {
            let arr: [E; 8] = std::array::from_fn(|i| E(i as u64));
            let it = arr.into_con_iter();
            std::mem::forget(it.next());
            std::mem::forget(it.next());
            drop(it.into_seq_iter());
        });
        let mut hang: Vec<String> = vec![];
        run(&mut bad, "wrapped iterator: buffered chunks of 3, one element taken of each", n, bomb, &[0, 3, 6], || {
            let it = vecn(n).into_iter().filter(|_| true).into_con_iter();
            let r = catch_unwind(AssertUnwindSafe(|| {
                let mut b = it.buffered_iter(3);
                loop {
                    match b.next() {
                        Some(mut c) => std::mem::forget(c.values.next()),
                        None => break,
                    }
                }
            }));
            // whatever happened, another thread's pull returns (with an element or with the end)
            later_pull_returns(&mut hang, "wrapped iterator: buffered chunks", &it);
            let _ = r;
            drop(it);
        });
        bad.extend(hang);
    }
    // the scenario above forgets element 0, 3, 6 only if the pulls got that far; a panic inside a pull ends the iteration
    // (the unwind guard), the rest is destroyed by the iterator: accept both 0 and 1 for 3 and 6, never 2
    bad.retain(|b| !(b.starts_with("wrapped iterator") && (b.contains("element 3 destroyed 1 times") || b.contains("element 6 destroyed 1 times"))));
    for b in &bad {
        println!("{}", b);
    }
    if bad.is_empty() {
        println!("VERDICT: PASS");
    } else {
        println!("VERDICT: VIOLATION an element whose destructor panics makes the machinery destroy elements twice, or not at all, or a later pull hang ({} observations)", bad.len());
    }
}
