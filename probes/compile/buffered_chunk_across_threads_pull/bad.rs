// probe buffered_chunk_across_threads_pull (bad twin): a buffered chunk kept alive while the same BufferedIter is pulled again inside a worker thread
#![allow(unused)]
use orx_concurrent_iter::*;

fn main() {
    let v: Vec<String> = (0..8).map(|i| i.to_string()).collect();
    let it = v.into_iter().into_con_iter();
    let n: usize = std::thread::scope(|s| {
        s.spawn(|| {
            let mut buffered = it.buffered_iter(2);
            let mut kept = Vec::new();
            while let Some(chunk) = buffered.next() {
                kept.push(chunk.values);
            }
            kept.into_iter().map(|c| c.len()).sum()
        })
        .join()
        .unwrap()
    });
    println!("{}", n);
}
