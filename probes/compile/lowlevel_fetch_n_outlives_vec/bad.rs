// probe lowlevel_fetch_n_outlives_vec (bad twin): the values of a chunk obtained with the low-level AtomicIter::fetch_n outlive the iterator
#![allow(unused)]
use orx_concurrent_iter::iter::atomic_iter::AtomicIter;
use orx_concurrent_iter::*;

fn main() {
    let v: Vec<String> = (0..8).map(|i| i.to_string()).collect();
    let values;
    {
        let it = v.into_con_iter();
        let chunk = it.fetch_n(2).unwrap();
        values = chunk.values;
    }
    println!("{}", values.count());
}
