// probe private_mod_default_fns (bad twin): a client names the internal module orx_concurrent_iter::iter::default_fns
#![allow(unused)]
use orx_concurrent_iter::iter::default_fns as internal;

fn main() {}
