// probe guard_vec_into (good twin): elements that are Sync but not Send (MutexGuard) through Vec::into_con_iter: a consuming iterator moves them to the pulling thread
#![allow(unused)]
use orx_concurrent_iter::*;
use std::sync::{Mutex, MutexGuard};

fn main() {
    let ms: &'static Vec<Mutex<i32>> = Box::leak(Box::new((0..4).map(Mutex::new).collect()));
    let v: Vec<&'static Mutex<i32>> = ms.iter().collect();
    let it = IntoConcurrentIter::into_con_iter(v);
    let n: usize = std::thread::scope(|s| {
        let hs: Vec<_> = (0..2)
            .map(|_| {
                s.spawn(|| {
                    let mut k = 0usize;
                    while let Some(x) = it.next() {
                        let _y: i32 = *x.lock().unwrap();
                        k += 1;
                    }
                    k
                })
            })
            .collect();
        hs.into_iter().map(|h| h.join().unwrap()).sum()
    });
    assert_eq!(n, 4);
}
