// probe rc_vec_con_iter (good twin): elements that are not Send/Sync (Rc) through Vec::con_iter, shared by two threads
#![allow(unused)]
use orx_concurrent_iter::*;
use std::sync::Arc;

fn main() {
    let v: Vec<Arc<i32>> = (0..4).map(Arc::new).collect();
    let it = ConcurrentIterable::con_iter(&v);
    let n: usize = std::thread::scope(|s| {
        let hs: Vec<_> = (0..2)
            .map(|_| {
                s.spawn(|| {
                    let mut k = 0usize;
                    while let Some(x) = it.next() {
                        let _y: i32 = **x;
                        k += 1;
                    }
                    k
                })
            })
            .collect();
        hs.into_iter().map(|h| h.join().unwrap()).sum()
    });
    assert_eq!(n, 4);
}
