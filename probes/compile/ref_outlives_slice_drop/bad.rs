// probe ref_outlives_slice_drop (bad twin): a reference delivered by slice.into_con_iter() used after the vector behind the slice was dropped
#![allow(unused)]
use orx_concurrent_iter::*;

fn main() {
    let v: Vec<String> = (0..4).map(|i| i.to_string()).collect();
    let it = v.as_slice().into_con_iter();
    let r: &String = it.next().unwrap();
    drop(it);
    drop(v);
    println!("{}", r);
}
