// probe private_mod_implementors (bad twin): a client names the internal module orx_concurrent_iter::iter::implementors
#![allow(unused)]
use orx_concurrent_iter::iter::implementors as internal;

fn main() {}
