// probe wrapped_iter_borrows_local (bad twin): a wrapped iterator that borrows a local vector (vec.iter().into_con_iter()) cannot leave the scope of the vector
#![allow(unused)]
use orx_concurrent_iter::*;

fn main() {
    let total: usize;
    let it;
    {
        let v: Vec<usize> = (0..4).collect();
        it = v.iter().into_con_iter();
    }
    total = std::thread::scope(|s| s.spawn(|| it.values().map(|x| *x).sum()).join().unwrap());
    println!("{}", total);
}
