// probe rc_vec_into_method (good twin): same as rc_vec_into with method-call syntax (the rejection then is E0599: trait bounds not satisfied)
#![allow(unused)]
use orx_concurrent_iter::*;
use std::sync::Arc;

fn main() {
    let v: Vec<Arc<i32>> = (0..4).map(Arc::new).collect();
    let it = v.into_con_iter();
    let n: usize = std::thread::scope(|s| {
        let hs: Vec<_> = (0..2)
            .map(|_| {
                s.spawn(|| {
                    let mut k = 0usize;
                    while let Some(x) = it.next() {
                        let _y: i32 = *x;
                        k += 1;
                    }
                    k
                })
            })
            .collect();
        hs.into_iter().map(|h| h.join().unwrap()).sum()
    });
    assert_eq!(n, 4);
}
