// probe chunk_outlives_iter (bad twin): a one-shot chunk used after its concurrent iterator went out of scope
#![allow(unused)]
use orx_concurrent_iter::*;

fn main() {
    let v: Vec<String> = (0..4).map(|i| i.to_string()).collect();
    let chunk;
    {
        let it = v.into_con_iter();
        chunk = it.next_chunk(2).unwrap();
    }
    println!("{}", chunk.values.count());
}
