// probe chunk_across_into_seq_cloned (bad twin): a one-shot chunk of con_iter().cloned() kept across into_seq_iter(self)
#![allow(unused)]
use orx_concurrent_iter::*;

fn main() {
    let v: Vec<String> = (0..4).map(|i| i.to_string()).collect();
    let it = v.con_iter().cloned();
    let chunk = it.next_chunk(2).unwrap();
    let rest: Vec<String> = it.into_seq_iter().collect();
    println!("{}", chunk.values.count());
    println!("{}", rest.len());
}
