// probe two_buffered_chunks_slice (good twin): two chunks of one BufferedIter (over vec.con_iter()) alive at once
#![allow(unused)]
use orx_concurrent_iter::*;

fn main() {
    let v: Vec<String> = (0..4).map(|i| i.to_string()).collect();
    let it = v.con_iter();
    let mut buffered = it.buffered_iter(2);
    let a: usize = {
        let first = buffered.next().unwrap();
        first.values.map(|x| x.len()).sum()
    };
    let b: usize = {
        let second = buffered.next().unwrap();
        second.values.map(|x| x.len()).sum()
    };
    println!("{}", a + b);
}
