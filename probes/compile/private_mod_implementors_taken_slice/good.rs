// probe private_mod_implementors_taken_slice (good twin): a client names the public module orx_concurrent_iter::iter::atomic_iter
#![allow(unused)]
use orx_concurrent_iter::iter::atomic_iter as public;

fn main() {}
