// probe private_mod_implementors_taken_slice (bad twin): a client names the internal module orx_concurrent_iter::iter::implementors::taken_slice
#![allow(unused)]
use orx_concurrent_iter::iter::implementors::taken_slice as internal;

fn main() {}
