// probe cloned_keeps_borrow (good twin): con_iter().cloned() still borrows the vector: pulling after the vector was dropped
#![allow(unused)]
use orx_concurrent_iter::*;

fn main() {
    let v: Vec<String> = (0..4).map(|i| i.to_string()).collect();
    let it = v.con_iter().cloned();
    let x: Option<String> = it.next();
    drop(it);
    drop(v);
    println!("{:?}", x);
}
