// probe chunk_refs_outlive_vec (bad twin): references delivered in a chunk of vec.con_iter() collected and used after the vector went out of scope
#![allow(unused)]
use orx_concurrent_iter::*;

fn main() {
    let rs: Vec<&String>;
    {
        let v: Vec<String> = (0..4).map(|i| i.to_string()).collect();
        let it = v.con_iter();
        rs = it.next_chunk(3).unwrap().values.collect();
    }
    println!("{}", rs.len() + rs[0].len());
}
