// probe rc_cloned (bad twin): elements that are not Send (Rc) cloned out by con_iter().cloned() on two threads
#![allow(unused)]
use orx_concurrent_iter::*;
use std::rc::Rc;

fn main() {
    let v: Vec<Rc<i32>> = (0..4).map(Rc::new).collect();
    let it = v.con_iter().cloned();
    let n: usize = std::thread::scope(|s| {
        let hs: Vec<_> = (0..2)
            .map(|_| {
                s.spawn(|| {
                    let mut k = 0usize;
                    while let Some(x) = it.next() {
                        let _y: i32 = *x;
                        k += 1;
                    }
                    k
                })
            })
            .collect();
        hs.into_iter().map(|h| h.join().unwrap()).sum()
    });
    assert_eq!(n, 4);
}
