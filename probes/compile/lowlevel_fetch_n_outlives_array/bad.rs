// probe lowlevel_fetch_n_outlives_array (bad twin): the values of a chunk obtained with the low-level AtomicIter::fetch_n outlive the iterator
#![allow(unused)]
use orx_concurrent_iter::iter::atomic_iter::AtomicIter;
use orx_concurrent_iter::*;

fn main() {
    let v: [String; 4] = std::array::from_fn(|i| i.to_string());
    let values;
    {
        let it = v.into_con_iter();
        let chunk = it.fetch_n(2).unwrap();
        values = chunk.values;
    }
    println!("{}", values.count());
}
