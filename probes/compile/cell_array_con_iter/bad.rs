// probe cell_array_con_iter (bad twin): elements that are Send but not Sync (Cell) through <[T; N]>::con_iter
#![allow(unused)]
use orx_concurrent_iter::*;
use std::cell::Cell;

fn main() {
    let v: Vec<Cell<i32>> = (0..4).map(Cell::new).collect();
    let a: [_; 4] = v.try_into().ok().unwrap();
    let it = ConcurrentIterable::con_iter(&a);
    let n: usize = std::thread::scope(|s| {
        let hs: Vec<_> = (0..2)
            .map(|_| {
                s.spawn(|| {
                    let mut k = 0usize;
                    while let Some(x) = it.next() {
                        x.set(x.get() + 1);
                        k += 1;
                    }
                    k
                })
            })
            .collect();
        hs.into_iter().map(|h| h.join().unwrap()).sum()
    });
    assert_eq!(n, 4);
}
