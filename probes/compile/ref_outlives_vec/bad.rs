// probe ref_outlives_vec (bad twin): a reference delivered by vec.con_iter() used after the vector went out of scope
#![allow(unused)]
use orx_concurrent_iter::*;

fn main() {
    let r: &String;
    {
        let v: Vec<String> = (0..4).map(|i| i.to_string()).collect();
        let it = v.con_iter();
        r = std::thread::scope(|s| s.spawn(|| it.next().unwrap()).join().unwrap());
    }
    println!("{}", r);
}
