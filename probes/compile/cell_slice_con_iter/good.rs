// probe cell_slice_con_iter (good twin): elements that are Send but not Sync (Cell) through con_iter() of a slice
#![allow(unused)]
use orx_concurrent_iter::*;
use std::sync::atomic::{AtomicI32, Ordering};

fn main() {
    let v: Vec<AtomicI32> = (0..4).map(AtomicI32::new).collect();
    let s: &[_] = v.as_slice();
    let it = ConcurrentIterable::con_iter(&s);
    let n: usize = std::thread::scope(|s| {
        let hs: Vec<_> = (0..2)
            .map(|_| {
                s.spawn(|| {
                    let mut k = 0usize;
                    while let Some(x) = it.next() {
                        x.fetch_add(1, Ordering::Relaxed);
                        k += 1;
                    }
                    k
                })
            })
            .collect();
        hs.into_iter().map(|h| h.join().unwrap()).sum()
    });
    assert_eq!(n, 4);
}
