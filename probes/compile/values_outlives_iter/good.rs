// probe values_outlives_iter (good twin): a values() wrapper used after its concurrent iterator went out of scope
#![allow(unused)]
use orx_concurrent_iter::*;

fn main() {
    let v: Vec<String> = (0..4).map(|i| i.to_string()).collect();
    let it = v.into_con_iter();
    let mut vals;
    {
        vals = it.values();
    }
    println!("{:?}", vals.next());
}
