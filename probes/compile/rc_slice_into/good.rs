// probe rc_slice_into (good twin): elements that are not Send/Sync (Rc) through into_con_iter() of a slice, shared by two threads
#![allow(unused)]
use orx_concurrent_iter::*;
use std::sync::Arc;

fn main() {
    let v: Vec<Arc<i32>> = (0..4).map(Arc::new).collect();
    let s: &[_] = v.as_slice();
    let it = IntoConcurrentIter::into_con_iter(s);
    let n: usize = std::thread::scope(|s| {
        let hs: Vec<_> = (0..2)
            .map(|_| {
                s.spawn(|| {
                    let mut k = 0usize;
                    while let Some(x) = it.next() {
                        let _y: i32 = **x;
                        k += 1;
                    }
                    k
                })
            })
            .collect();
        hs.into_iter().map(|h| h.join().unwrap()).sum()
    });
    assert_eq!(n, 4);
}
