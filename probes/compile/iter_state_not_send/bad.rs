// probe iter_state_not_send (bad twin): a wrapped iterator whose own state is not Send (the closure of its map owns an Rc; the elements are usize): its next() is run by whichever thread holds the ticket, so sharing the concurrent iterator must be rejected
#![allow(unused)]
use orx_concurrent_iter::*;
use std::rc::Rc;

fn main() {
    let shared = Rc::new(1usize);
    let keep = shared.clone();
    let it = (0..4usize).map(move |i| i + *shared.clone()).into_con_iter();
    let n: usize = std::thread::scope(|s| {
        let hs: Vec<_> = (0..2)
            .map(|_| {
                s.spawn(|| {
                    let mut k = 0usize;
                    while let Some(x) = it.next() {
                        let _y: usize = x;
                        k += 1;
                    }
                    k
                })
            })
            .collect();
        hs.into_iter().map(|h| h.join().unwrap()).sum()
    });
    assert_eq!(n, 4);
}
