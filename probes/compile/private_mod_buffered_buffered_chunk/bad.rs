// probe private_mod_buffered_buffered_chunk (bad twin): a client names the internal module orx_concurrent_iter::iter::buffered::buffered_chunk
#![allow(unused)]
use orx_concurrent_iter::iter::buffered::buffered_chunk as internal;

fn main() {}
