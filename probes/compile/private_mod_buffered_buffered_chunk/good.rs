// probe private_mod_buffered_buffered_chunk (good twin): a client names the public module orx_concurrent_iter::iter::atomic_iter
#![allow(unused)]
use orx_concurrent_iter::iter::atomic_iter as public;

fn main() {}
