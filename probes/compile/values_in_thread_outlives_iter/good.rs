// probe values_in_thread_outlives_iter (good twin): a values() wrapper handed to a thread that may outlive the concurrent iterator (std::thread::spawn instead of a scope)
#![allow(unused)]
use orx_concurrent_iter::*;

fn main() {
    let v: Vec<String> = (0..4).map(|i| i.to_string()).collect();
    let it = v.into_con_iter();
    let vals = it.values();
    let n = std::thread::scope(|s| s.spawn(move || vals.count()).join().unwrap());
    drop(it);
    println!("{}", n);
}
