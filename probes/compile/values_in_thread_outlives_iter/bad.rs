// probe values_in_thread_outlives_iter (bad twin): a values() wrapper handed to a thread that may outlive the concurrent iterator (std::thread::spawn instead of a scope)
#![allow(unused)]
use orx_concurrent_iter::*;

fn main() {
    let v: Vec<String> = (0..4).map(|i| i.to_string()).collect();
    let it = v.into_con_iter();
    let vals = it.values();
    let h = std::thread::spawn(move || vals.count());
    drop(it);
    println!("{}", h.join().unwrap());
}
