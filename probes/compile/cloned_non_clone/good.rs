// probe cloned_non_clone (good twin): cloned() on an element type that is not Clone
#![allow(unused)]
use orx_concurrent_iter::*;

fn main() {
    #[derive(Clone)]
    struct Plain(usize);
    let v: Vec<Plain> = (0..4).map(Plain).collect();
    let it = v.con_iter().cloned();
    let n = std::thread::scope(|s| s.spawn(|| it.values().count()).join().unwrap());
    assert_eq!(n, 4);
}
