// probe two_buffered_chunks_array (bad twin): two chunks of one BufferedIter (over array.into_con_iter()) alive at once
#![allow(unused)]
use orx_concurrent_iter::*;

fn main() {
    let v: Vec<String> = (0..4).map(|i| i.to_string()).collect();
    let a: [String; 4] = v.try_into().ok().unwrap();
    let it = a.into_con_iter();
    let mut buffered = it.buffered_iter(2);
    let first = buffered.next().unwrap();
    let second = buffered.next().unwrap();
    let a: usize = first.values.map(|x| x.len()).sum();
    let b: usize = second.values.map(|x| x.len()).sum();
    println!("{}", a + b);
}
