// probe buffered_across_into_seq_iter (good twin): a BufferedIter of a wrapped iterator kept across into_seq_iter(self)
#![allow(unused)]
use orx_concurrent_iter::*;

fn main() {
    let v: Vec<String> = (0..4).map(|i| i.to_string()).collect();
    let it = v.into_iter().into_con_iter();
    {
        let mut buffered = it.buffered_iter(2);
        println!("{}", buffered.next().map(|c| c.values.count()).unwrap_or(0));
    }
    let rest: Vec<String> = it.into_seq_iter().collect();
    println!("{}", rest.len());
}
