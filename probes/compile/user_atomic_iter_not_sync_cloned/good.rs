// probe user_atomic_iter_not_sync_cloned (good twin): a user-defined AtomicIter over a slice that counts its get calls, wrapped by cloned() and shared by two threads
#![allow(unused)]
use orx_concurrent_iter::iter::atomic_iter::AtomicIter;
use orx_concurrent_iter::*;

struct CountingIter<'a, T> {
    slice: &'a [T],
    counter: AtomicCounter,
    gets: std::sync::atomic::AtomicUsize,
}

impl<'a, T: Send + Sync> AtomicIter<&'a T> for CountingIter<'a, T> {
    fn counter(&self) -> &AtomicCounter {
        &self.counter
    }
    fn progress_and_get_begin_idx(&self, number_to_fetch: usize) -> Option<usize> {
        let begin_idx = self.counter.fetch_and_add(number_to_fetch);
        (begin_idx < self.slice.len()).then_some(begin_idx)
    }
    fn get(&self, item_idx: usize) -> Option<&'a T> {
        self.gets.fetch_add(1, std::sync::atomic::Ordering::Relaxed);
        self.slice.get(item_idx)
    }
    fn fetch_n(&self, n: usize) -> Option<NextChunk<&'a T, impl ExactSizeIterator<Item = &'a T>>> {
        self.progress_and_get_begin_idx(n).map(|begin_idx| {
            let end_idx = begin_idx.saturating_add(n).min(self.slice.len());
            NextChunk { begin_idx, values: self.slice[begin_idx..end_idx].iter() }
        })
    }
    fn early_exit(&self) {
        self.counter.store(self.slice.len())
    }
}

fn main() {
    let data: Vec<u64> = (0..4).collect();
    let iter = CountingIter { slice: data.as_slice(), counter: AtomicCounter::new(), gets: std::sync::atomic::AtomicUsize::new(0) };
    let adapted = iter.cloned();
    let shared = &adapted;
    std::thread::scope(|s| {
        for k in 0..2 {
            s.spawn(move || {
                let _ = shared.get(k);
            });
        }
    });
}
