// probe cell_vec_con_iter (good twin): elements that are Send but not Sync (Cell) through Vec::con_iter: two threads get & to elements of one vector
#![allow(unused)]
use orx_concurrent_iter::*;
use std::sync::atomic::{AtomicI32, Ordering};

fn main() {
    let v: Vec<AtomicI32> = (0..4).map(AtomicI32::new).collect();
    let it = ConcurrentIterable::con_iter(&v);
    let n: usize = std::thread::scope(|s| {
        let hs: Vec<_> = (0..2)
            .map(|_| {
                s.spawn(|| {
                    let mut k = 0usize;
                    while let Some(x) = it.next() {
                        x.fetch_add(1, Ordering::Relaxed);
                        k += 1;
                    }
                    k
                })
            })
            .collect();
        hs.into_iter().map(|h| h.join().unwrap()).sum()
    });
    assert_eq!(n, 4);
}
