// probe ids_and_values_across_into_seq (good twin): an ids_and_values() wrapper of a wrapped iterator kept across into_seq_iter(self)
#![allow(unused)]
use orx_concurrent_iter::*;

fn main() {
    let v: Vec<String> = (0..4).map(|i| i.to_string()).collect();
    let it = v.into_iter().into_con_iter();
    {
        let mut vals = it.ids_and_values();
        println!("{:?}", vals.next());
    }
    let rest: Vec<String> = it.into_seq_iter().collect();
    println!("{}", rest.len());
}
