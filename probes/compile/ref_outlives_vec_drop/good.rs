// probe ref_outlives_vec_drop (good twin): a reference delivered by vec.con_iter() used after the vector was dropped
#![allow(unused)]
use orx_concurrent_iter::*;

fn main() {
    let v: Vec<String> = (0..4).map(|i| i.to_string()).collect();
    let it = v.con_iter();
    let r: &String = std::thread::scope(|s| s.spawn(|| it.next().unwrap()).join().unwrap());
    println!("{}", r);
    drop(v);
}
