// probe copied_non_copy (good twin): copied() on an element type that is not Copy (String)
#![allow(unused)]
use orx_concurrent_iter::*;

fn main() {
    let v: Vec<usize> = (0..4).collect();
    let it = v.con_iter().copied();
    let n = std::thread::scope(|s| s.spawn(|| it.values().count()).join().unwrap());
    assert_eq!(n, 4);
}
