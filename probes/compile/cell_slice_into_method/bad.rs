// probe cell_slice_into_method (bad twin): same as cell_slice_into with method-call syntax
#![allow(unused)]
use orx_concurrent_iter::*;
use std::cell::Cell;

fn main() {
    let v: Vec<Cell<i32>> = (0..4).map(Cell::new).collect();
    let s: &[_] = v.as_slice();
    let it = s.into_con_iter();
    let n: usize = std::thread::scope(|s| {
        let hs: Vec<_> = (0..2)
            .map(|_| {
                s.spawn(|| {
                    let mut k = 0usize;
                    while let Some(x) = it.next() {
                        x.set(x.get() + 1);
                        k += 1;
                    }
                    k
                })
            })
            .collect();
        hs.into_iter().map(|h| h.join().unwrap()).sum()
    });
    assert_eq!(n, 4);
}
