// probe rc_iter_into (bad twin): elements that are not Send (Rc) through a wrapped iterator (vec.into_iter().into_con_iter())
#![allow(unused)]
use orx_concurrent_iter::*;
use std::rc::Rc;

fn main() {
    let v: Vec<Rc<i32>> = (0..4).map(Rc::new).collect();
    let it = IterIntoConcurrentIter::into_con_iter(v.into_iter());
    let n: usize = std::thread::scope(|s| {
        let hs: Vec<_> = (0..2)
            .map(|_| {
                s.spawn(|| {
                    let mut k = 0usize;
                    while let Some(x) = it.next() {
                        let _y: i32 = *x;
                        k += 1;
                    }
                    k
                })
            })
            .collect();
        hs.into_iter().map(|h| h.join().unwrap()).sum()
    });
    assert_eq!(n, 4);
}
