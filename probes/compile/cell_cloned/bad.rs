// probe cell_cloned (bad twin): elements that are Send but not Sync (Cell) cloned on two threads out of one shared vector by con_iter().cloned()
#![allow(unused)]
use orx_concurrent_iter::*;
use std::cell::Cell;

fn main() {
    let v: Vec<Cell<i32>> = (0..4).map(Cell::new).collect();
    let it = v.con_iter().cloned();
    let n: usize = std::thread::scope(|s| {
        let hs: Vec<_> = (0..2)
            .map(|_| {
                s.spawn(|| {
                    let mut k = 0usize;
                    while let Some(x) = it.next() {
                        let _y: i32 = x.get();
                        k += 1;
                    }
                    k
                })
            })
            .collect();
        hs.into_iter().map(|h| h.join().unwrap()).sum()
    });
    assert_eq!(n, 4);
}
