// probe private_mod_buffered (bad twin): a client names the internal module orx_concurrent_iter::iter::buffered
#![allow(unused)]
use orx_concurrent_iter::iter::buffered as internal;

fn main() {}
