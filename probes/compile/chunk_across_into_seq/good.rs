// probe chunk_across_into_seq (good twin): a one-shot chunk (next_chunk) of vec.into_con_iter() kept across into_seq_iter(self)
#![allow(unused)]
use orx_concurrent_iter::*;

fn main() {
    let v: Vec<String> = (0..4).map(|i| i.to_string()).collect();
    let it = v.into_con_iter();
    {
        let chunk = it.next_chunk(2).unwrap();
        println!("{}", chunk.values.count());
    }
    let rest: Vec<String> = it.into_seq_iter().collect();
    println!("{}", rest.len());
}
