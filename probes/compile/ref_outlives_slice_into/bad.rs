// probe ref_outlives_slice_into (bad twin): a reference delivered by slice.into_con_iter() used after the collection went out of scope (it may outlive the iterator, not the collection)
#![allow(unused)]
use orx_concurrent_iter::*;

fn main() {
    let r: &String;
    {
        let v: Vec<String> = (0..4).map(|i| i.to_string()).collect();
        let s: &[String] = v.as_slice();
        let it = s.into_con_iter();
        r = std::thread::scope(|sc| sc.spawn(|| it.next().unwrap()).join().unwrap());
    }
    println!("{}", r);
}
