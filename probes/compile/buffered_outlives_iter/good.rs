// probe buffered_outlives_iter (good twin): a BufferedIter used after its concurrent iterator went out of scope
#![allow(unused)]
use orx_concurrent_iter::*;

fn main() {
    let v: Vec<String> = (0..4).map(|i| i.to_string()).collect();
    let it = v.into_con_iter();
    let mut buffered;
    {
        buffered = it.buffered_iter(2);
    }
    println!("{}", buffered.next().map(|c| c.values.count()).unwrap_or(0));
}
