// probe buffered_outlives_iter (bad twin): a BufferedIter used after its concurrent iterator went out of scope
#![allow(unused)]
use orx_concurrent_iter::*;

fn main() {
    let v: Vec<String> = (0..4).map(|i| i.to_string()).collect();
    let mut buffered;
    {
        let it = v.into_con_iter();
        buffered = it.buffered_iter(2);
    }
    println!("{}", buffered.next().map(|c| c.values.count()).unwrap_or(0));
}
