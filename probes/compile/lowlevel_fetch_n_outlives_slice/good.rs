// probe lowlevel_fetch_n_outlives_slice (good twin): the values of a chunk obtained with the low-level AtomicIter::fetch_n are used while the iterator is alive
#![allow(unused)]
use orx_concurrent_iter::iter::atomic_iter::AtomicIter;
use orx_concurrent_iter::*;

fn main() {
    let v: Vec<String> = (0..8).map(|i| i.to_string()).collect(); let v = v.as_slice();
    let n;
    {
        let it = v.into_con_iter().cloned();
        let chunk = it.fetch_n(2).unwrap();
        let values = chunk.values;
        n = values.count();
    }
    println!("{}", n);
}
