// probe internal_pull_by_hand (good twin): two pulls through the public buffered iterator
#![allow(unused)]
use orx_concurrent_iter::*;

fn main() {
    let v: Vec<String> = (0..4).map(|i| i.to_string()).collect();
    let it = v.into_con_iter();
    let mut buffered = it.buffered_iter(1);
    let x = buffered.next().map(|c| c.values.count()).unwrap_or(0);
    let y = buffered.next().map(|c| c.values.count()).unwrap_or(0);
    println!("{}", x + y);
}
