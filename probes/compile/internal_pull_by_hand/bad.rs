// probe internal_pull_by_hand (bad twin): the internal pull protocol of a buffered chunk driven by hand
#![allow(unused)]
use orx_concurrent_iter::iter::buffered::buffered_chunk::BufferedChunk;
use orx_concurrent_iter::*;

fn twice<C: ConcurrentIter>(iter: &C) -> usize
where
    C::BufferedIter: BufferedChunk<C::Item, ConIter = C>,
{
    let mut a = <C::BufferedIter as BufferedChunk<C::Item>>::new(1);
    let mut b = <C::BufferedIter as BufferedChunk<C::Item>>::new(1);
    let x = a.pull(iter, 0).map(|v| v.count()).unwrap_or(0);
    let y = b.pull(iter, 0).map(|v| v.count()).unwrap_or(0);
    x + y
}

fn main() {
    let v: Vec<String> = (0..4).map(|i| i.to_string()).collect();
    let it = v.into_con_iter();
    println!("{}", twice(&it));
}
