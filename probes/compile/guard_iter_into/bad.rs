// probe guard_iter_into (bad twin): elements that are Sync but not Send (MutexGuard) through a wrapped iterator
#![allow(unused)]
use orx_concurrent_iter::*;
use std::sync::{Mutex, MutexGuard};

fn main() {
    let ms: &'static Vec<Mutex<i32>> = Box::leak(Box::new((0..4).map(Mutex::new).collect()));
    let v: Vec<MutexGuard<'static, i32>> = ms.iter().map(|m| m.lock().unwrap()).collect();
    let it = IterIntoConcurrentIter::into_con_iter(v.into_iter());
    let n: usize = std::thread::scope(|s| {
        let hs: Vec<_> = (0..2)
            .map(|_| {
                s.spawn(|| {
                    let mut k = 0usize;
                    while let Some(x) = it.next() {
                        let _y: i32 = *x;
                        k += 1;
                    }
                    k
                })
            })
            .collect();
        hs.into_iter().map(|h| h.join().unwrap()).sum()
    });
    assert_eq!(n, 4);
}
