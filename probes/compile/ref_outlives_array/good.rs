// probe ref_outlives_array (good twin): a reference delivered by array.con_iter() used after the array went out of scope
#![allow(unused)]
use orx_concurrent_iter::*;

fn main() {
    let a: [String; 2] = [String::from("a"), String::from("b")];
    let r: &String;
    {
        let it = a.con_iter();
        r = it.next().unwrap();
    }
    println!("{}", r);
}
