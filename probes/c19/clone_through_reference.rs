// C19 run-time probe: clones of a slice iterator made through a shared reference by scoped threads (the usual way
// a worker gets its own iterator) are independent iterators that start at the original's current position, also
// when the element type is not Clone.
use orx_concurrent_iter::*;

#[derive(Debug)]
struct NotClone(u64);

fn main() {
    let v: Vec<NotClone> = (0..8).map(NotClone).collect();
    let it = v.as_slice().into_con_iter();
    let first = it.next().map(|x| x.0);
    let shared = &it;
    let results: Vec<Vec<u64>> = std::thread::scope(|s| {
        let hs: Vec<_> = (0..2)
            .map(|_| {
                s.spawn(move || {
                    let mine = shared.clone();
                    let mut out = vec![];
                    while let Some(x) = mine.next() {
                        out.push(x.0);
                    }
                    out
                })
            })
            .collect();
        hs.into_iter().map(|h| h.join().unwrap()).collect()
    });
    let rest: Vec<u64> = std::iter::from_fn(|| it.next().map(|x| x.0)).collect();
    println!("first: {:?}", first);
    println!("clones: {:?}", results);
    println!("original afterwards: {:?}", rest);
    let want: Vec<u64> = (1..8).collect();
    let ok = first == Some(0) && results.iter().all(|r| r == &want) && rest == want && v.len() == 8;
    println!("VERDICT: {}", if ok { "PASS" } else { "VIOLATION clones made through a reference are not independent iterators starting at the original's position" });
}
