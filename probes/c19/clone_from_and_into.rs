// C19 run-time probe: the other entry points of `Clone` -- `clone_from` and `ToOwned::clone_into` -- make the receiver
// an independent iterator over the SOURCE's collection at the SOURCE's current position, exactly as `clone()` does;
// for slices and ranges (the iterators that are Clone), at a fresh, a middle and a past-the-end position.
use orx_concurrent_iter::*;

fn drain<I: ConcurrentIter>(it: &I) -> Vec<I::Item> {
    std::iter::from_fn(|| it.next()).collect()
}

fn main() {
    let first: Vec<u64> = (100..106).collect();
    let second: Vec<u64> = (200..209).collect();
    let mut bad: Vec<String> = vec![];

    // slices over two different collections, and over a shorter view of the same buffer
    for pulled in [0usize, 3, 9, 12] {
        let a = first.as_slice().into_con_iter();
        let b = second.as_slice().into_con_iter();
        a.next();
        for _ in 0..pulled {
            b.next();
        }
        let want: Vec<u64> = second.iter().copied().skip(pulled).collect();
        let mut x = a.clone();
        x.clone_from(&b);
        let got: Vec<u64> = drain(&x).into_iter().copied().collect();
        if got != want {
            bad.push(format!("slice clone_from at position {}: {:?}, expected {:?}", pulled, got, want));
        }
        let mut y = a.clone();
        b.clone_into(&mut y);
        let got: Vec<u64> = drain(&y).into_iter().copied().collect();
        if got != want {
            bad.push(format!("slice clone_into at position {}: {:?}, expected {:?}", pulled, got, want));
        }
        // the source of the clone is where it was, the receiver's old collection is untouched
        let rest_b: Vec<u64> = drain(&b).into_iter().copied().collect();
        if rest_b != want {
            bad.push(format!("slice: the source of clone_from moved: {:?}, expected {:?}", rest_b, want));
        }
        let rest_a: Vec<u64> = drain(&a).into_iter().copied().collect();
        if rest_a != first[1..].to_vec() {
            bad.push(format!("slice: the iterator whose clone received clone_from moved: {:?}", rest_a));
        }
    }
    {
        let short = first[..3].into_con_iter();
        let long = first.as_slice().into_con_iter();
        long.next();
        let mut x = short.clone();
        x.clone_from(&long);
        if x.try_get_len() != Some(5) {
            bad.push(format!("slice clone_from of a longer view: {:?} remaining, expected Some(5)", x.try_get_len()));
        }
    }

    // ranges: ordinary, shifted, empty and with crossed bounds (an empty range)
    let ranges: Vec<(std::ops::Range<usize>, std::ops::Range<usize>)> =
        vec![(0..4, 10..17), (5..6, 3..3), (2..9, 7..2), (7..2, 1..5)];
    for (ra, rb) in ranges {
        for pulled in [0usize, 2, 8] {
            let a = ConIterOfRange::new(ra.clone());
            let b = ConIterOfRange::new(rb.clone());
            for _ in 0..pulled {
                b.next();
            }
            let want: Vec<usize> = rb.clone().skip(pulled).collect();
            let c = std::panic::catch_unwind(std::panic::AssertUnwindSafe(|| {
                let plain = b.clone();
                let mut x = a.clone();
                x.clone_from(&b);
                (drain(&plain), drain(&x))
            }));
            match c {
                Ok((p, x)) => {
                    if p != want {
                        bad.push(format!("range {:?} clone at position {}: {:?}, expected {:?}", rb, pulled, p, want));
                    }
                    if x != want {
                        bad.push(format!("range {:?} clone_from at position {}: {:?}, expected {:?}", rb, pulled, x, want));
                    }
                }
                Err(_) => bad.push(format!("range {:?}: clone / clone_from at position {} panicked", rb, pulled)),
            }
        }
    }

    for b in &bad {
        println!("{}", b);
    }
    println!(
        "VERDICT: {}",
        if bad.is_empty() {
            "PASS".to_string()
        } else {
            format!("VIOLATION clone_from / clone_into / clone do not give an independent iterator at the source's position ({} failures)", bad.len())
        }
    );
}
