// run-time probe lowlevel_get_twice: is the low-level trait AtomicIter reachable from safe code, and does calling
// get(0) twice on a consuming vec.into_con_iter() deliver element 0 twice (two owners of one element)?
//
// No `unsafe` in this file.  Elements are `E(id)`: no heap allocation behind them, and their Drop only records the id
// in a ledger, so that a double ownership / double drop is OBSERVED in the ledger instead of corrupting the heap.
#![forbid(unsafe_code)]
#![allow(unused)]
use orx_concurrent_iter::iter::atomic_iter::AtomicIter;
use orx_concurrent_iter::*;
use std::sync::Mutex;

static DROPS: Mutex<Vec<u64>> = Mutex::new(Vec::new());

struct E(u64);
impl Drop for E {
    fn drop(&mut self) {
        DROPS.lock().unwrap().push(self.0);
    }
}

fn main() {
    const N: u64 = 4;
    let v: Vec<E> = (0..N).map(E).collect();
    let it = v.into_con_iter();
    let first: Option<E> = it.get(0);
    let second: Option<E> = it.get(0);
    let id1 = first.as_ref().map(|e| e.0);
    let id2 = second.as_ref().map(|e| e.0);
    println!("get(0) -> {:?}; get(0) again -> {:?}", id1, id2);
    let two_owners = id1.is_some() && id1 == id2;
    // the two values are forgotten, not dropped: whatever is in the ledger afterwards was dropped by the iterator itself
    std::mem::forget(first);
    std::mem::forget(second);
    drop(it);
    let mut by_iter = DROPS.lock().unwrap().clone();
    by_iter.sort();
    println!("dropped by the iterator itself: {:?}", by_iter);
    // element 0 was handed out (at least once) and is nevertheless still owned, and dropped, by the iterator
    let delivered_and_kept = id1.is_some() && by_iter.contains(&0);
    if two_owners || delivered_and_kept {
        println!(
            "VERDICT: VIOLATION safe code obtained element 0 {} times through AtomicIter::get and the iterator still dropped {:?}",
            [id1, id2].iter().filter(|x| x.is_some()).count(),
            by_iter
        );
    } else {
        println!("VERDICT: OK get(0) twice does not produce two owners");
    }
}
