// run-time probe highlevel_single_owner (control): the same ledger, but only the high-level alphabet of ConcurrentIter
// (next, next_id_and_value, next_chunk, buffered_iter, values, ids_and_values, for_each, fold, skip_to_end,
// into_seq_iter) driven from four threads over the three consuming kinds (vector, array, wrapped iterator).
// Every element must be delivered to at most one owner (or stay with the iterator / with a dropped chunk), and must
// not be dropped twice.
// Must pass: VERDICT: OK.
//
// No `unsafe` in this file.
#![forbid(unsafe_code)]
#![allow(unused)]
use orx_concurrent_iter::*;
use std::sync::Mutex;

static DROPS: Mutex<Vec<u64>> = Mutex::new(Vec::new());

struct E(u64);
impl Drop for E {
    fn drop(&mut self) {
        DROPS.lock().unwrap().push(self.0);
    }
}

const N: u64 = 257;

/// drives one iterator from four threads, each with its own mix of high-level calls; returns the ids delivered
fn drive<C: ConcurrentIter<Item = E>>(it: C, stop_early: bool) -> Vec<u64> {
    let got: Mutex<Vec<u64>> = Mutex::new(Vec::new());
    std::thread::scope(|s| {
        let (it, got) = (&it, &got);
        // thread 0: next / next_id_and_value
        s.spawn(move || {
            let mut mine = Vec::new();
            for round in 0..40 {
                if round % 2 == 0 {
                    match it.next() {
                        Some(e) => mine.push(e),
                        None => break,
                    }
                } else {
                    match it.next_id_and_value() {
                        Some(x) => mine.push(x.value),
                        None => break,
                    }
                }
            }
            got.lock().unwrap().extend(mine.iter().map(|e| e.0));
        });
        // thread 1: one-shot chunks, the second one only half consumed (the rest is dropped with the chunk)
        s.spawn(move || {
            let mut mine = Vec::new();
            for round in 0..6 {
                match it.next_chunk(7) {
                    Some(chunk) => {
                        if round == 1 {
                            mine.extend(chunk.values.take(3));
                        } else {
                            mine.extend(chunk.values);
                        }
                    }
                    None => break,
                }
            }
            got.lock().unwrap().extend(mine.iter().map(|e| e.0));
        });
        // thread 2: buffered chunks, then the values() wrapper
        s.spawn(move || {
            let mut mine = Vec::new();
            {
                let mut buffered = it.buffered_iter(5);
                for _ in 0..6 {
                    match buffered.next() {
                        Some(chunk) => mine.extend(chunk.values),
                        None => break,
                    }
                }
            }
            mine.extend(it.values().take(9));
            mine.extend(it.ids_and_values().take(4).map(|(_, e)| e));
            got.lock().unwrap().extend(mine.iter().map(|e| e.0));
        });
        // thread 3: for_each / fold over what is left (or an early stop)
        s.spawn(move || {
            let mut mine = Vec::new();
            if stop_early {
                mine.extend(it.values().take(5));
                it.skip_to_end();
            } else {
                let mut k = 0usize;
                it.for_each(4, |e| {
                    k += 1;
                    mine.push(e)
                });
                let rest = it.fold(3, Vec::new(), |mut acc, e| {
                    acc.push(e);
                    acc
                });
                mine.extend(rest);
            }
            got.lock().unwrap().extend(mine.iter().map(|e| e.0));
        });
    });
    // what the threads left behind (if anything) is taken sequentially
    let rest: Vec<E> = it.into_seq_iter().collect();
    let mut ids = got.into_inner().unwrap();
    ids.extend(rest.iter().map(|e| e.0));
    ids
}

fn check(kind: &str, base: u64, ids: Vec<u64>, complete: bool) -> Result<(), String> {
    let mut sorted = ids.clone();
    sorted.sort();
    if let Some(w) = sorted.windows(2).find(|w| w[0] == w[1]) {
        return Err(format!("{}: element {} delivered twice", kind, w[0]));
    }
    if sorted.iter().any(|x| *x < base || *x >= base + N) {
        return Err(format!("{}: an element that is not in the collection was delivered", kind));
    }
    // everything (delivered and not delivered) is dropped by now: each id exactly once in the ledger
    let mut drops: Vec<u64> = DROPS.lock().unwrap().iter().copied().filter(|x| *x >= base && *x < base + N).collect();
    drops.sort();
    if let Some(w) = drops.windows(2).find(|w| w[0] == w[1]) {
        return Err(format!("{}: element {} dropped twice", kind, w[0]));
    }
    // (an element that is never dropped is a leak: property C15, not this one -- reported as information only)
    if drops.len() as u64 != N {
        println!("info: {}: {} of {} elements dropped", kind, drops.len(), N);
    }
    // a delivered element must not also have been dropped by the iterator before the owner dropped it: covered by
    // "dropped twice" above, since every owner drops what it was given
    let _ = complete;
    Ok(())
}

fn main() {
    let mut failures = Vec::new();
    let mut base = 0u64;
    for stop_early in [false, true] {
        let v: Vec<E> = (base..base + N).map(E).collect();
        let ids = drive(v.into_con_iter(), stop_early);
        if let Err(e) = check("vec", base, ids, !stop_early) {
            failures.push(e);
        }
        base += 1000;

        let v: Vec<E> = (base..base + N).map(E).collect();
        let a: [E; N as usize] = v.try_into().ok().unwrap();
        let ids = drive(a.into_con_iter(), stop_early);
        if let Err(e) = check("array", base, ids, !stop_early) {
            failures.push(e);
        }
        base += 1000;

        let ids = drive((base..base + N).map(E).into_con_iter(), stop_early);
        // a wrapped iterator that is stopped early never creates the remaining elements: only the delivered ones exist
        let delivered = ids.len() as u64;
        if stop_early {
            let mut sorted = ids.clone();
            sorted.sort();
            let mut drops: Vec<u64> = DROPS.lock().unwrap().iter().copied().filter(|x| *x >= base && *x < base + N).collect();
            drops.sort();
            if sorted.windows(2).any(|w| w[0] == w[1]) {
                failures.push("iter: an element delivered twice".to_string());
            }
            if drops.windows(2).any(|w| w[0] == w[1]) {
                failures.push("iter: an element dropped twice".to_string());
            }
            if !sorted.iter().all(|x| drops.binary_search(x).is_ok()) {
                failures.push("iter: a delivered element was never dropped".to_string());
            }
        } else if let Err(e) = check("iter", base, ids, true) {
            failures.push(e);
        }
        println!("stop_early={}: wrapped iterator delivered {} elements", stop_early, delivered);
        base += 1000;
    }
    println!("drop ledger holds {} entries", DROPS.lock().unwrap().len());
    if failures.is_empty() {
        println!("VERDICT: OK no element had two owners and none was dropped twice (high-level alphabet, 4 threads, vec/array/iter)");
    } else {
        println!("VERDICT: VIOLATION {}", failures.join("; "));
    }
}
