// run-time probe counter_store_rewind: after two pulls, `counter().store(0)` (AtomicIter::counter is public and safe,
// AtomicCounter::store is public and safe) rewinds the iterator; the next pulls deliver elements 0 and 1 again.
//
// No `unsafe` in this file.  Delivered elements are kept in ManuallyDrop and never dropped, so the probe itself does
// not double-drop anything; the duplicate delivery is observed on the ids, the iterator's own drops in the ledger.
#![forbid(unsafe_code)]
#![allow(unused)]
use orx_concurrent_iter::iter::atomic_iter::AtomicIter;
use orx_concurrent_iter::*;
use std::mem::ManuallyDrop;
use std::sync::Mutex;

static DROPS: Mutex<Vec<u64>> = Mutex::new(Vec::new());

struct E(u64);
impl Drop for E {
    fn drop(&mut self) {
        DROPS.lock().unwrap().push(self.0);
    }
}

fn main() {
    const N: u64 = 4;
    let v: Vec<E> = (0..N).map(E).collect();
    let it = v.into_con_iter();
    let mut delivered: Vec<ManuallyDrop<E>> = Vec::new();
    delivered.push(ManuallyDrop::new(it.next().unwrap()));
    delivered.push(ManuallyDrop::new(it.next().unwrap()));
    it.counter().store(0);
    while let Some(e) = it.next() {
        delivered.push(ManuallyDrop::new(e));
        if delivered.len() > 64 {
            break;
        }
    }
    let ids: Vec<u64> = delivered.iter().map(|e| e.0).collect();
    println!("delivered ids: {:?}", ids);
    drop(it);
    println!("dropped by the iterator: {:?}", DROPS.lock().unwrap());
    let mut sorted = ids.clone();
    sorted.sort();
    let dup = sorted.windows(2).any(|w| w[0] == w[1]);
    if dup {
        println!("VERDICT: VIOLATION counter().store(0) rewound a consuming iterator: delivered ids {:?} contain duplicates (two owners)", ids);
    } else {
        println!("VERDICT: OK no element delivered twice after counter().store(0)");
    }
}
