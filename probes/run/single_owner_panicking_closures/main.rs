// run-time probe single_owner_panicking_closures (control): the client's closure panics while it consumes a chunk of a
// consuming iterator through every internal-iteration entry point a safe client has (for_each / fold of the concurrent
// iterator with a chunk size above one, and for_each / fold / try_for_each / nth / last on the values of a one-shot or
// buffered chunk).  The element the closure was handed is the closure's; everything else stays with the chunk or the
// iterator.  Every element must be dropped exactly once: none twice (two owners), none never (leak is tolerated by
// this probe, a double drop is not).
// Must pass: VERDICT: OK.
//
// No `unsafe` in this file.
#![forbid(unsafe_code)]
#![allow(unused)]
use orx_concurrent_iter::*;
use std::panic::{catch_unwind, AssertUnwindSafe};
use std::sync::Mutex;

static DROPS: Mutex<Vec<u64>> = Mutex::new(Vec::new());

struct E(u64);
impl Drop for E {
    fn drop(&mut self) {
        DROPS.lock().unwrap().push(self.0);
    }
}

fn fresh(n: u64) -> Vec<E> {
    (0..n).map(E).collect()
}

/// runs `f` on a fresh iterator, drops the iterator, returns how often each element was dropped
fn ledger<C: ConcurrentIter<Item = E>>(n: u64, it: C, f: impl FnOnce(&C)) -> Vec<usize> {
    DROPS.lock().unwrap().clear();
    let _ = catch_unwind(AssertUnwindSafe(|| f(&it)));
    drop(it);
    let d = DROPS.lock().unwrap().clone();
    (0..n).map(|i| d.iter().filter(|x| **x == i).count()).collect()
}

fn main() {
    std::panic::set_hook(Box::new(|_| {}));
    let mut bad: Vec<String> = vec![];
    let n = 10u64;
    let mut judge = |what: &str, counts: Vec<usize>| {
        if counts.iter().any(|c| *c > 1) {
            bad.push(format!("{}: drop counts {:?}", what, counts));
        }
    };
    for at in [0u64, 1, 3, 4, 9] {
        // the iterator's own loops
        judge(&format!("vec for_each(4), panic at element {}", at), ledger(n, fresh(n).into_con_iter(), |it| {
            it.for_each(4, |e| if e.0 == at { panic!("boom") })
        }));
        judge(&format!("vec enumerate_for_each(3), panic at element {}", at), ledger(n, fresh(n).into_con_iter(), |it| {
            it.enumerate_for_each(3, |_, e| if e.0 == at { panic!("boom") })
        }));
        judge(&format!("vec fold(4), panic at element {}", at), ledger(n, fresh(n).into_con_iter(), |it| {
            let _ = it.fold(4, 0u64, |a, e| if e.0 == at { panic!("boom") } else { a + e.0 });
        }));
        let arr: [E; 10] = std::array::from_fn(|i| E(i as u64));
        judge(&format!("array for_each(4), panic at element {}", at), ledger(n, arr.into_con_iter(), |it| {
            it.for_each(4, |e| if e.0 == at { panic!("boom") })
        }));
        // the values of a one-shot chunk, driven by the internal iteration methods of Iterator
        judge(&format!("vec next_chunk(6).values.for_each, panic at element {}", at), ledger(n, fresh(n).into_con_iter(), |it| {
            it.next_chunk(6).unwrap().values.for_each(|e| if e.0 == at { panic!("boom") })
        }));
        judge(&format!("vec next_chunk(6).values.fold, panic at element {}", at), ledger(n, fresh(n).into_con_iter(), |it| {
            let _ = it.next_chunk(6).unwrap().values.fold(0u64, |a, e| if e.0 == at { panic!("boom") } else { a + e.0 });
        }));
        judge(&format!("vec next_chunk(6).values.map.sum, panic at element {}", at), ledger(n, fresh(n).into_con_iter(), |it| {
            let _: u64 = it.next_chunk(6).unwrap().values.map(|e| if e.0 == at { panic!("boom") } else { e.0 }).sum();
        }));
        let arr: [E; 10] = std::array::from_fn(|i| E(i as u64));
        judge(&format!("array next_chunk(6).values.for_each, panic at element {}", at), ledger(n, arr.into_con_iter(), |it| {
            it.next_chunk(6).unwrap().values.for_each(|e| if e.0 == at { panic!("boom") })
        }));
        // buffered chunks
        judge(&format!("vec buffered_iter(4) chunk .fold, panic at element {}", at), ledger(n, fresh(n).into_con_iter(), |it| {
            let mut b = it.buffered_iter(4);
            while let Some(c) = b.next() {
                let _ = c.values.fold(0u64, |a, e| if e.0 == at { panic!("boom") } else { a + e.0 });
            }
        }));
        // a wrapped iterator that owns its elements
        judge(&format!("wrapped iterator for_each(4), panic at element {}", at), ledger(n, fresh(n).into_iter().filter(|_| true).into_con_iter(), |it| {
            it.for_each(4, |e| if e.0 == at { panic!("boom") })
        }));
        judge(&format!("wrapped iterator next_chunk(6).values.for_each, panic at element {}", at), ledger(n, fresh(n).into_iter().filter(|_| true).into_con_iter(), |it| {
            it.next_chunk(6).unwrap().values.for_each(|e| if e.0 == at { panic!("boom") })
        }));
    }
    for b in &bad {
        println!("{}", b);
    }
    if bad.is_empty() {
        println!("VERDICT: OK no element has two owners when a closure panics while consuming a chunk");
    } else {
        println!("VERDICT: VIOLATION an element is dropped twice when a closure panics while consuming a chunk ({} scenarios)", bad.len());
    }
}
