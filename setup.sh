#!/bin/sh
# builds the framework from files on disk only (offline): the Coq development (full .vo build), the
# extracted model driver, and the correspondence harness in both profiles against /repo's working tree
set -e
cd "$(dirname "$0")"
export CARGO_NET_OFFLINE=true
mkdir -p build/logs coq/gen
for t in tools/extract_*.py; do [ -f "$t" ] && python3 "$t" /repo coq/gen; done
(cd coq && coq_makefile -f _CoqProject -o Makefile >/dev/null && make -j16 >../build/logs/coq_build.log 2>&1) || { tail -30 build/logs/coq_build.log; exit 1; }
sh ocaml/build.sh
[ -f harness/Cargo.lock ] || cp /repo/Cargo.lock harness/Cargo.lock
(cd harness && RUSTFLAGS="--cfg orx_concurrent_iter_verif" cargo build --offline --release >../build/logs/harness_release.log 2>&1) || { tail -30 build/logs/harness_release.log; exit 1; }
(cd harness && RUSTFLAGS="--cfg orx_concurrent_iter_verif" cargo build --offline >../build/logs/harness_debug.log 2>&1) || { tail -30 build/logs/harness_debug.log; exit 1; }
echo setup ok
