"""Case generators for the correspondence check and the failing-input search.

All randomness comes from one splitmix64 state seeded from VERIF_SEED, so a run is reproducible.
A case is a dict; `fmt_case` writes it in the text format read by ocaml/drv.ml and harness/src/main.rs.
"""
UMAX = (1 << 64) - 1


class Rng:
    def __init__(self, seed):
        self.s = (seed * 0x9E3779B97F4A7C15 + 0x1234567) & UMAX

    def next(self):
        self.s = (self.s + 0x9E3779B97F4A7C15) & UMAX
        z = self.s
        z = ((z ^ (z >> 30)) * 0xBF58476D1CE4E5B9) & UMAX
        z = ((z ^ (z >> 27)) * 0x94D049BB133111EB) & UMAX
        return z ^ (z >> 31)

    def below(self, n):
        return self.next() % n if n > 0 else 0

    def choice(self, xs):
        return xs[self.below(len(xs))]

    def weighted(self, pairs):
        tot = sum(w for _, w in pairs)
        r = self.below(tot)
        for x, w in pairs:
            if r < w:
                return x
            r -= w
        return pairs[-1][0]

    def chance(self, num, den):
        return self.below(den) < num


def fmt_case(c):
    e = c["env"]
    lines = ["case %s" % c["id"]]
    lines.append(
        "env kind=%s adaptor=%s len=%d start=%d end=%d hint=%s owning=%d mode=%s crash=%s"
        % (e["kind"], e["adaptor"], e["len"], e["start"], e["end"], e["hint"], 1 if e["owning"] else 0,
           e["mode"], "-" if e["crash"] is None else str(e["crash"])))
    lines.append("threads %d" % len(c["progs"]))
    for t, p in enumerate(c["progs"]):
        lines.append("prog %d %s" % (t, " ".join(p)))
    lines.append("final %s" % c["final"])
    lines.append("seed %d" % c["seed"])
    lines.append("gen %s" % c.get("gen", "random"))
    s = c.get("sched")
    lines.append("sched %s" % ("-" if s is None else ("." if s == [] else ",".join(map(str, s)))))
    if c.get("reps", 1) != 1:
        lines.append("reps %d" % c["reps"])
    if c.get("freeze"):
        lines.append("freeze %d %d" % tuple(c["freeze"]))
    if c.get("elem"):
        lines.append("elem %s" % c["elem"])
    if c.get("chunkstyle"):
        lines.append("chunkstyle %s" % c["chunkstyle"])
    if c.get("ctor"):
        lines.append("ctor %s" % c["ctor"])
    if c.get("gap") is not None:
        lines.append("gap %d" % c["gap"])
    if c.get("hintlie"):
        lines.append("hintlie %d" % c["hintlie"])
    if c.get("clonecrash") is not None:
        lines.append("clonecrash %d" % c["clonecrash"])
    if c.get("c0") is not None:
        lines.append("c0 %d" % c["c0"])
    if c.get("multi"):
        lines.append("multi %d" % c["multi"])
        for t, p in enumerate(c["mprogs"]):
            lines.append("mprog %d %s" % (t, " ".join(p)))
    lines.append("end")
    return "\n".join(lines) + "\n"


def mk_env(kind, ln, adaptor="none", start=0, end=None, hint="exact", owning=None, mode="wrapping", crash=None):
    if kind == "range":
        if end is None:
            end = start + ln
        ln = max(0, end - start)
    else:
        start, end = 0, ln
    if owning is None:
        owning = kind in ("vec", "array")
    return dict(kind=kind, adaptor=adaptor, len=ln, start=start, end=end, hint=hint, owning=owning, mode=mode, crash=crash)


def pick_len(r, maxarr=False):
    ln = r.weighted([(0, 2), (1, 3), (2, 4), (3, 5), (4, 5), (5, 4), (6, 3), (7, 2), (8, 2), (11, 1), (12, 1)])
    return ln


def pick_chunk(r, ln):
    return max(1, r.weighted([(1, 3), (2, 4), (3, 3), (max(1, ln - 1), 2), (max(1, ln), 2), (ln + 1, 2), (2 * ln + 1, 1), (7, 1)]))


def pick_take(r, n):
    return r.weighted([(0, 1), (1, 2), (max(1, n - 1), 2), (n, 3), (n + 5, 4)])


KINDS_ALL = [("slice", 3), ("vec", 3), ("array", 2), ("range", 2), ("iter", 6)]


def pick_env(r, kinds=KINDS_ALL, mode="wrapping", adaptors=False, owning_only=False):
    kind = r.weighted(kinds)
    ln = pick_len(r)
    adaptor = "none"
    hint = "exact"
    owning = None
    start = 0
    end = None
    if kind == "range":
        start = r.weighted([(0, 3), (5, 2), (1000, 1)])
        if r.chance(1, 12):
            # crossed bounds: an empty range
            start = r.choice([3, 42, 1000])
            end = r.choice([0, 1, start - 1])
    if kind == "iter":
        hint = r.weighted([("exact", 3), ("inexact", 1), ("none", 1)])
        owning = r.chance(1, 2) or owning_only
        if adaptors and r.chance(1, 2):
            adaptor = r.choice(["cloned", "copied"])
            owning = False
    if kind == "slice" and adaptors and r.chance(2, 3):
        adaptor = r.choice(["cloned", "copied"])
    return mk_env(kind, ln, adaptor=adaptor, start=start, end=end, hint=hint, owning=owning, mode=mode)


def gen_prog(r, env, nops, allow, has_buf_state=None):
    """one thread's program; `allow` is a dict op-family -> weight"""
    ln = env["len"]
    prog = []
    buf = False
    fams = [(k, w) for k, w in allow.items() if w > 0]
    for _ in range(nops):
        f = r.weighted(fams)
        if f == "next":
            prog.append("next:" + r.choice(["idval", "val", "values", "idsvalues"]))
        elif f == "chunk":
            n = pick_chunk(r, ln)
            prog.append("chunk:%d:%d" % (n, pick_take(r, n)))
        elif f == "chunk0":
            prog.append("chunk:0:%d" % r.below(3))
        elif f == "buf":
            if not buf or r.chance(1, 6):
                c = pick_chunk(r, ln)
                prog.append("bufnew:%d" % c)
                buf = True
                bufc = c
            prog.append("bufnext:%d" % pick_take(r, 3))
        elif f == "loop":
            c = r.weighted([(1, 3), (2, 3), (3, 2), (ln + 1, 1)])
            prog.append("loop:%s:%d:-" % (r.choice(["foreach", "enum", "fold"]), c))
        elif f == "loopcrash":
            c = r.weighted([(1, 3), (2, 3), (3, 2)])
            prog.append("loop:%s:%d:%d" % (r.choice(["foreach", "enum", "fold"]), c, r.below(max(1, ln))))
        elif f == "skip":
            prog.append("skip")
        elif f == "len":
            prog.append(r.choice(["len", "more"]))
    if buf:
        prog.append("bufdrop")
    return prog


PULLS = dict(next=5, chunk=4, buf=3, loop=1)
PULLS_LEN = dict(next=5, chunk=4, buf=3, loop=1, len=3)
WITH_SKIP = dict(next=5, chunk=3, buf=2, loop=1, skip=2, len=3)
LOOPS = dict(next=1, chunk=1, buf=1, loop=5)


def gen_conc(r, cid, allow, kinds=KINDS_ALL, mode="wrapping", adaptors=False, final=None, maxthreads=3, tail=None,
             owning_only=False, crash=False):
    env = pick_env(r, kinds, mode, adaptors, owning_only)
    nt = r.weighted([(1, 2), (2, 5), (3, 3)] if maxthreads >= 3 else [(1, 2), (2, 5)])
    progs = []
    for t in range(nt):
        nops = r.weighted([(1, 2), (2, 4), (3, 3), (4, 2), (6, 1)])
        p = gen_prog(r, env, nops, allow)
        if tail and r.chance(2, 3):
            if p and p[-1] == "bufdrop":
                p = p[:-1] + tail + ["bufdrop"]
            else:
                p = p + tail
        progs.append(p)
    if crash and env["kind"] == "iter":
        env["crash"] = r.below(env["len"] + 2)
    if final is None:
        fin = r.weighted([("drop", 2), ("seq:%d" % r.weighted([(0, 1), (1, 1), (100, 3)]), 3)])
    else:
        fin = final
    c = dict(id=cid, env=env, progs=progs, final=fin, seed=r.below(1 << 30),
             gen=r.weighted([("random", 5), ("pct", 3), ("rr", 1), ("solo", 2)]), sched=None)
    # the other public constructors of the same iterators
    if env["adaptor"] == "none" and r.chance(1, 3):
        if env["kind"] == "slice":
            c["ctor"] = r.choice(["con_iter_vec", "con_iter_array", "con_iter_slice", "from"])
        elif env["kind"] == "range":
            c["ctor"] = r.choice(["con_iter_range", "from"])
        elif env["kind"] == "vec":
            c["ctor"] = "from"
    return c


def gen_tiny(r, cid, allow, kinds=KINDS_ALL, mode="wrapping", final="drop"):
    """tiny configuration for exhaustive enumeration of interleavings: 2 threads x <=2 ops, len <= 3"""
    kind = r.weighted(kinds)
    ln = r.weighted([(0, 1), (1, 2), (2, 3), (3, 2)])
    hint = r.choice(["exact", "inexact"]) if kind == "iter" else "exact"
    owning = (kind in ("vec", "array")) or (kind == "iter" and r.chance(1, 2))
    env = mk_env(kind, ln, hint=hint, owning=owning, mode=mode)
    progs = []
    for t in range(2):
        progs.append(gen_prog(r, env, r.weighted([(1, 2), (2, 3)]), allow))
    # buffered programs are long (bufnew+bufnext+bufdrop): keep the tree small
    return dict(id=cid, env=env, progs=progs, final=final, seed=0, gen="random", sched=None)


def enum_tiny(prop, mode="wrapping"):
    """a systematic family of tiny configurations, used by the widened search: every source kind, lengths 0-2, two
    threads, every unordered pair of programs made of one or two operations of a small alphabet (single pull, chunk
    pulls of 1 and 2, skip_to_end, has_more, a buffered pull of 2)"""
    alpha = [["next:idval"], ["chunk:2:9"], ["chunk:1:9"], ["skip"], ["more"], ["bufnew:2", "bufnext:9"]]
    progs = []
    for a in alpha:
        progs.append(list(a))
    for a in alpha:
        for b in alpha:
            progs.append(list(a) + list(b))
    for p in progs:
        if any(o.startswith("bufnew") for o in p):
            p.append("bufdrop")
    kinds = [("slice", "exact", None), ("vec", "exact", None), ("array", "exact", None), ("range", "exact", None),
             ("iter", "exact", True), ("iter", "inexact", False), ("iter", "none", True),
             ("range+5", "exact", None), ("slice:cloned", "exact", None), ("iter:copied", "exact", False), ("iter:cloned", "none", False)]
    if prop == "C07":
        kinds = [k for k in kinds if k[0].startswith("iter")]
    if prop in ("C08", "C15"):
        kinds = [k for k in kinds if k[0] in ("vec", "array", "iter")]
    out = []
    n = 0
    for kind_, hint, owning in kinds:
        kind, _, adaptor = kind_.partition(":")
        start = 0
        if kind.endswith("+5"):
            kind, start = kind[:-2], 5
        for ln in (1, 2, 0):
            for i in range(len(progs)):
                for j in range(i, len(progs)):
                    env = mk_env(kind, ln, hint=hint, owning=owning, mode=mode, adaptor=adaptor or "none", start=start)
                    out.append(dict(id="%s-enum-%s-%d" % (prop, mode[0], n), env=env, progs=[list(progs[i]), list(progs[j])],
                                    final="drop", seed=0, gen="random", sched=None))
                    n += 1
    return out


def gen_bufseq(r, cid, mode):
    """buffered chunk iterators that are consumed partly: the re-used buffer of the wrapped iterator, short last chunks"""
    kind = r.weighted([("iter", 7), ("vec", 1), ("array", 1), ("slice", 1)])
    c = r.weighted([(2, 3), (3, 3), (4, 3), (5, 1)])
    m = r.weighted([(1, 3), (2, 3), (3, 1)])
    i = r.below(c)
    ln = min(12, m * c + i)
    owning = (kind in ("vec", "array")) or (kind == "iter" and r.chance(1, 2))
    hint = r.choice(["exact", "inexact", "none"]) if kind == "iter" else "exact"
    env = mk_env(kind, ln, hint=hint, owning=owning, mode=mode)
    nt = r.weighted([(1, 3), (2, 2)])
    progs = []
    for t in range(nt):
        p = ["bufnew:%d" % c]
        for _ in range(r.weighted([(2, 2), (3, 3), (4, 3), (6, 1)])):
            p.append("bufnext:%d" % r.weighted([(0, 2), (1, 3), (max(1, c - 1), 2), (c, 2), (c + 5, 4)]))
            if r.chance(1, 6):
                p.append("next:" + r.choice(["idval", "val"]))
        p.append("bufdrop")
        progs.append(p)
    fin = r.weighted([("drop", 2), ("seq:%d" % r.weighted([(0, 1), (1, 1), (100, 3)]), 2)])
    return dict(id=cid, env=env, progs=progs, final=fin, seed=r.below(1 << 30),
                gen=r.weighted([("random", 4), ("pct", 2), ("rr", 1), ("solo", 3)]), sched=None)


# ---------------------------------------------------------------- boundary stream (C16)

def boundary_values():
    small = [0, 1, 2, 5]
    half = UMAX // 2
    return small + [half - 2, half, half + 3, UMAX - 5, UMAX - 2, UMAX - 1, UMAX]


def gen_boundary(r, cid, mode):
    """sequential histories at the extremes of usize"""
    what = r.weighted([("range", 5), ("known", 3), ("iter", 2)])
    progs = [[]]
    if what == "range":
        bv = boundary_values()
        s = r.choice(bv)
        e = r.choice(bv)
        if r.chance(1, 2):
            e = min(UMAX, s + r.choice([0, 1, 2, 3, 7]))
        env = mk_env("range", 0, start=s, end=e, mode=mode)
        ln = env["len"]
        if r.chance(1, 4):
            # several skip_to_end calls around pulls that report the end, on a range of any size (half of them huge)
            if r.chance(1, 2):
                s, e = r.choice([(0, 1 << 63), (0, UMAX), (5, (1 << 63) + 5), (0, (1 << 63) + 1), (7, UMAX)])
                env = mk_env("range", 0, start=s, end=e, mode=mode)
                ln = env["len"]
            p = []
            for _ in range(r.weighted([(3, 2), (4, 3), (6, 2)])):
                p.append(r.weighted([("skip", 4), ("next:idval", 3), ("chunk:2:9", 2), ("chunk:%d:1" % max(1, min(ln, UMAX)), 1), ("more", 2), ("len", 1)]))
            fin = r.weighted([("drop", 1), ("seq:%d" % r.choice([0, 2]), 1)])
            return dict(id=cid, env=env, progs=[p], final=fin, seed=r.below(1 << 30), gen="solo", sched=None)
    elif what == "known":
        kind = r.choice(["slice", "vec", "array"])
        ln = r.choice([0, 1, 2, 3, 5, 8])
        env = mk_env(kind, ln, mode=mode)
        if r.chance(1, 3):
            # requests whose SUM passes 2^64 on a small source: harmless as long as every reservation is clamped to the length
            s_, m_ = r.choice([(1 << 63, 2), (1 << 63, 3), (1 << 62, 4), (1 << 62, 5), (UMAX, 2), (UMAX // 2 + 1, 2), (UMAX // 2 + 1, 3)])
            p = []
            if r.chance(1, 2):
                p.append("next:" + r.choice(["idval", "val"]))
            if r.chance(1, 2):
                p += ["chunk:%d:%d" % (s_, r.choice([0, 1, 8])) for _ in range(m_ + r.below(2))]
            else:
                p += ["bufnew:%d" % s_] + ["bufnext:%d" % r.choice([0, 1, 8]) for _ in range(m_ + r.below(2))] + ["bufdrop"]
            if r.chance(1, 2):
                p.append(r.choice(["next:idval", "len", "more", "chunk:2:9"]))
            fin = r.weighted([("drop", 1), ("seq:%d" % r.choice([0, 2, 9]), 2)])
            return dict(id=cid, env=env, progs=[p], final=fin, seed=r.below(1 << 30), gen="solo", sched=None)
    else:
        ln = r.choice([0, 1, 2, 3, 5, 8])
        env = mk_env("iter", ln, hint=r.choice(["exact", "inexact", "none"]), owning=r.chance(1, 2), mode=mode)
    sizes = [0, 1, max(0, ln - 1) if ln < 1 << 32 else 3, min(ln, UMAX), min(ln + 1, UMAX), UMAX // 2, 1 << 63, 1 << 62, UMAX - 3, UMAX]
    p = []
    for _ in range(r.weighted([(1, 2), (2, 3), (3, 3), (5, 1)])):
        f = r.weighted([("chunk", 6), ("next", 3), ("buf", 3), ("skip", 1), ("len", 2), ("loop0", 1), ("buf0", 1)])
        if f == "chunk":
            p.append("chunk:%d:%d" % (r.choice(sizes), r.choice([0, 1, 3, 8])))
        elif f == "next":
            p.append("next:" + r.choice(["idval", "val"]))
        elif f == "buf":
            c = r.choice([s for s in sizes if s > 0])
            if env["kind"] == "iter":
                c = min(c, r.choice([1, 2, 7, 4096]))
            p += ["bufnew:%d" % c] + ["bufnext:%d" % r.choice([0, 1, 3, 8]) for _ in range(r.weighted([(1, 3), (2, 3), (4, 2), (5, 1)]))] + ["bufdrop"]
        elif f == "skip":
            p.append("skip")
        elif f == "len":
            p.append(r.choice(["len", "more"]))
        elif f == "loop0":
            p.append("loop:%s:0:-" % r.choice(["foreach", "enum", "fold"]))
        elif f == "buf0":
            p.append("bufnew:0")
    progs = [p]
    fin = r.weighted([("drop", 1), ("seq:%d" % r.choice([0, 2, 9]), 2)])
    return dict(id=cid, env=env, progs=progs, final=fin, seed=r.below(1 << 30), gen="solo", sched=None)


def gen_multi(r, cid):
    """C19: several iterators over one collection (fresh ones and clones made at arbitrary points), driven by 1-3 threads"""
    if r.chance(2, 3):
        ln = r.choice([0, 1, 2, 3, 5, 8])
        env = mk_env("slice", ln)
    else:
        st = r.choice([0, 3, 1000])
        ln = r.choice([0, 1, 2, 4, 7])
        env = mk_env("range", 0, start=st, end=st + ln)
    nt = r.weighted([(1, 2), (2, 5), (3, 3)])
    fresh = r.weighted([(1, 3), (2, 2)])
    nslots = fresh
    mprogs = []
    for t in range(nt):
        avail = list(range(fresh))
        p = []
        for _ in range(r.weighted([(2, 2), (3, 3), (5, 3), (7, 1)])):
            j = r.choice(avail)
            f = r.weighted([("next", 5), ("chunk", 3), ("loop", 1), ("skip", 1), ("len", 2), ("clone", 3)])
            if f == "clone":
                p.append("@%d:clone:%d" % (j, nslots))
                avail.append(nslots)
                nslots += 1
            elif f == "next":
                p.append("@%d:next:%s" % (j, r.choice(["val", "idval", "values", "idsvalues"])))
            elif f == "chunk":
                n = r.choice([1, 2, 3, 9])
                p.append("@%d:chunk:%d:%d" % (j, n, r.below(n + 1)))
            elif f == "loop":
                p.append("@%d:loop:%s:%d:-" % (j, r.choice(["foreach", "enum", "fold"]), r.choice([1, 2, 3])))
            elif f == "skip":
                p.append("@%d:skip" % j)
            else:
                p.append("@%d:%s" % (j, r.choice(["len", "more"])))
        mprogs.append(p)
    return dict(id=cid, env=env, progs=[[] for _ in range(nt)], final="drop", seed=r.below(1 << 30), gen="random", sched=None,
                multi=fresh, mprogs=mprogs, nslots=nslots)


# ---------------------------------------------------------------- streams per property

def stream(prop, seed, n, mode="wrapping"):
    """n cases for property `prop`"""
    r = Rng(seed * 1000003 + int(prop[1:]))
    out = []
    for i in range(n):
        cid = "%s-%s-%d" % (prop, mode[0], i)
        if prop in ("C01", "C02", "C03", "C04", "C08", "C15") and r.chance(1, 5):
            c = gen_bufseq(r, cid, mode)
        elif prop in ("C08", "C10", "C13", "C15") and r.chance(1, 8):
            c = gen_boundary(r, cid, mode)
            if prop == "C13" and c["env"]["kind"] == "slice":
                c["env"]["adaptor"] = r.choice(["cloned", "copied"])
                c["env"]["owning"] = False
        elif prop in ("C05", "C06", "C11") and r.chance(1, 8):
            # the extremes of usize: huge ranges and chunk sizes, several skips, zero chunk sizes
            c = gen_boundary(r, cid, mode)
            if prop == "C11":
                c["progs"][0] += [r.choice(["more", "len"]), "next:idval", r.choice(["more", "len"])]
        elif prop in ("C02", "C03", "C04") and r.chance(1, 8):
            # indices and chunk contract of what is delivered before and after a panic of the wrapped iterator or a closure
            c = gen_conc(r, cid, dict(next=4, chunk=3, buf=3, loop=1, loopcrash=1), mode=mode, crash=True)
        elif prop in ("C01", "C02", "C03", "C04"):
            c = gen_conc(r, cid, PULLS_LEN if prop == "C04" else PULLS, mode=mode, adaptors=r.chance(1, 5))
        elif prop == "C05":
            tail = [r.choice(["next:val", "chunk:2:9", "next:idval", "len", "more"]) for _ in range(r.below(3) + 1)]
            c = gen_conc(r, cid, PULLS_LEN, mode=mode, tail=tail)
        elif prop in ("C06",):
            tail = [r.choice(["next:val", "chunk:2:9", "more", "len"]) for _ in range(r.below(3) + 1)]
            c = gen_conc(r, cid, WITH_SKIP, mode=mode, tail=tail, adaptors=r.chance(1, 5))
        elif prop == "C07":
            c = gen_conc(r, cid, WITH_SKIP, kinds=[("iter", 1)], mode=mode)
        elif prop in ("C08", "C15"):
            if r.chance(1, 6):
                # closures that panic while they own an element
                c = gen_conc(r, cid, dict(next=2, chunk=2, buf=2, loop=2, loopcrash=4), kinds=[("vec", 3), ("array", 3), ("iter", 2)],
                             mode=mode, owning_only=True, crash=r.chance(1, 3))
            else:
                c = gen_conc(r, cid, WITH_SKIP if r.chance(1, 2) else PULLS, kinds=[("vec", 3), ("array", 3), ("iter", 2)],
                             mode=mode, owning_only=True)
        elif prop == "C09":
            c = gen_conc(r, cid, WITH_SKIP, mode=mode)
            if c["env"]["kind"] == "iter" and r.chance(1, 6):
                # "everything that is left": one request of 2^61 or 2^62 elements (the sum of all requests stays far below 2^64)
                p = c["progs"][r.below(len(c["progs"]))]
                p.insert(r.below(len(p) + 1), "chunk:%d:%d" % (r.choice([1 << 61, 1 << 62]), r.choice([0, 1, 9])))
        elif prop == "C10":
            c = gen_conc(r, cid, WITH_SKIP if r.chance(1, 3) else PULLS, mode=mode,
                         final="seq:%d" % r.weighted([(0, 1), (1, 1), (2, 1), (100, 4)]), adaptors=r.chance(1, 4))
        elif prop == "C11":
            c = gen_conc(r, cid, WITH_SKIP if r.chance(1, 2) else PULLS_LEN, mode=mode, tail=["more"])
        elif prop == "C12":
            c = gen_conc(r, cid, LOOPS, mode=mode)
        elif prop == "C13":
            c = gen_conc(r, cid, WITH_SKIP, kinds=[("slice", 3), ("iter", 2)], mode=mode, adaptors=True)
            if c["env"]["adaptor"] == "none":
                c["env"]["adaptor"] = r.choice(["cloned", "copied"])
                c["env"]["owning"] = False
        elif prop == "C16":
            c = gen_boundary(r, cid, mode)
            if c["env"]["kind"] == "slice" and r.chance(1, 3):
                c["env"]["adaptor"] = r.choice(["cloned", "copied"])
            elif c["env"]["kind"] == "iter" and not c["env"]["owning"] and r.chance(1, 2):
                c["env"]["adaptor"] = r.choice(["cloned", "copied"])
        elif prop == "C17":
            c = gen_conc(r, cid, dict(WITH_SKIP, chunk0=1) if r.chance(1, 3) else WITH_SKIP, mode=mode, maxthreads=2)
        elif prop == "C18":
            allow = dict(next=4, chunk=3, buf=3, loop=1, loopcrash=2)
            c = gen_conc(r, cid, allow, mode=mode, crash=True, owning_only=r.chance(1, 2))
        else:
            c = gen_conc(r, cid, WITH_SKIP, mode=mode)
        out.append(c)
    return out


def tiny_stream(prop, seed, n, mode="wrapping"):
    r = Rng(seed * 7777 + int(prop[1:]) + 99)
    allow = dict(next=4, chunk=3)
    if prop in ("C06", "C07", "C09", "C11"):
        allow = dict(next=4, chunk=3, skip=2, len=1)
    if prop in ("C03",):
        allow = dict(next=2, chunk=4, buf=1)
    kinds = KINDS_ALL
    if prop == "C07":
        kinds = [("iter", 1)]
    if prop in ("C08", "C15"):
        kinds = [("vec", 1), ("array", 1), ("iter", 1)]
    return [gen_tiny(r, "%s-tiny-%s-%d" % (prop, mode[0], i), allow, kinds=kinds, mode=mode,
                     final=r.choice(["drop", "seq:100"])) for i in range(n)]
