#!/usr/bin/env python3
"""writes /verif/MANIFEST.json from the table below (one place to keep the claims current)"""
import json, os
ROOT = os.path.dirname(os.path.dirname(os.path.abspath(__file__)))

COMMON_NOTE = ("Trusted: Coq 8.16.1 kernel (coqc; coqchk -o in the thorough tier); no axioms (Print Assumptions of every theorem is "
               "'Closed under the global context', checked on every run against an empty allow-list); vm_compute only in witness lemmas, no native_compute; "
               "extraction with ExtrOcamlBasic only and ocaml/drv.ml; the correspondence check (src/verif_shim.rs in /repo, /verif/harness, tools/*.py), which is "
               "differential testing; std atomics / Vec / ptr operations are modelled, not verified. The theorems are about coq/theories/Machine.v, a hand-written "
               "model tied to /repo on every run by lock-step replay and by evaluating the extracted checker on the implementation's traces.")

PRE = 'About the hand-written model (coq/theories/Machine.v). Unless said otherwise every theorem below is for EVERY environment of the named class, every thread count, every per-thread program whose chunk sizes are usize values (wf_progs), every schedule, under the run-level hypothesis nowrap (no fetch_add of the run wraps the 64-bit counter; runs outside it are known findings F14/F16). known kinds = slice, vector, array, range under any adaptor; wrapped = the wrapper over an arbitrary iterator with any size hint and any crash point, FUSED OR NOT (e_gap: any set of calls of the wrapped next() that answer None although elements remain) unless the theorem carries the hypothesis `fused e`; all kinds = both. '

# id -> (technique, level text, extra note)
P = {
 "C01": ("Coq proof (inductive tiling invariants over all schedules: counter machine and ticket machine) + lock-step correspondence",
         PRE + "c01_exactly_once (all kinds): check_prop 1 = no position is delivered twice (on every run, also with skips and panics) and, when the run has no skip and no panic, once the end has been reported and nothing is pending the deliveries tile the source. The extracted check_prop 1 judges the crate's traces on generated, DFS-enumerated and harness-chosen schedules. The theorem assumes `fused e`. For a wrapped iterator that is not fused: c01_no_duplicate_any_iterator (no position is moved out to two callers, owning or not), c01_yielded_exactly_once_any_iterator (owning; at a quiescent point with no buffered iterator kept, moved-out and destroyed positions tile [0, cursor): everything the wrapped iterator ever yielded is delivered or destroyed exactly once), c01_delivered_count_any_iterator (quiescent, no panic: as many elements delivered as the wrapped iterator yielded), c01_exactly_once_until_first_gap (check_prop 1 in full on every run in which no call of the wrapped next() has yet answered None prematurely). After repair F19 (no call of the wrapped next() once one has answered None): c01_no_duplicate_checker_any_iterator (chk_C01_nodup itself, any wrapped iterator), c01_exactly_once_any_iterator (check_prop 1 judged against the environment cut at the first premature None, `cut e g`), c01_any_iterator_runs_as_fused (the run of ANY wrapped iterator is, up to the answers of length queries, the run of a fused iterator of the shorter length, and check_prop 1,2,3,4,6,12 hold of it), c01_any_iterator_same_run (without an exact hint the two runs are equal configurations).",
         "The no-loss clause is proved and checked only for runs without skip_to_end and without panics (with them the property itself does not demand it). The model executes one call of the wrapped next() as one step; justified by c07_mutual_exclusion."),
 "C02": ("Coq proof (per-event invariant; wrapped iterator: taken elements are [b, b+k) where b is the ticket) + lock-step correspondence",
         PRE + "c02_index_fidelity (all kinds): chk_C02 = every reported index is the element's source position (single pulls, chunk offsets, ids_and_values, enumerate_for_each), on every run including runs with panics. The theorem assumes `fused e`; c02_index_fidelity_until_first_gap: the same for any wrapped iterator on every run up to its first premature None (after one, indices run ahead of positions: Examples.gap_hypotheses_hold). c02_index_fidelity_any_iterator: check_prop 2 for ANY wrapped iterator, fused or not (true since repair F19).",
         "Elements are identified with their positions in the model: 'the element a sequential iteration would produce' is decided on the crate by values that are an injective non-monotone function of the position (correspondence only)."),
 "C03": ("Coq proof (per-event invariant, chunk arithmetic by lia; partial chunks of the ticket machine end at the source's end) + lock-step correspondence",
         PRE + "c03_chunk_contract (all kinds): chk_C03 = a returned chunk is non-empty, not longer than requested, consecutive from its begin index, announces its exact length before and after partial consumption, and is short only at the end of the source; one-shot and buffered. The theorem assumes `fused e`; c03_chunk_contract_until_first_gap: the same for any wrapped iterator up to its first premature None. c03_chunk_contract_any_iterator: check_prop 3 judged against the environment cut at the first premature None (a chunk may be short there: that None is the end).",
         "chk_C03 does not constrain a pull that panicked, nor a buffered pull whose buffered_iter call is not in the trace. The slots of the wrapped iterator's re-used buffer are modelled."),
 "C04": ("Coq proof (tiling invariants; induction over the schedule for the quiescent prefix) + lock-step correspondence with call/return times",
         PRE + "c04_linearizable_cursor (all kinds): check_prop 4 = no position twice, each thread receives increasing positions and a pull that starts after another returned receives larger positions (on every run), and, on runs without panics, at every point of the history where no call is pending the delivered positions are a gap-free prefix. The theorem assumes `fused e`; c04_linearizable_cursor_until_first_gap: the same for any wrapped iterator up to its first premature None. c04_linearizable_cursor_any_iterator: check_prop 4 for ANY wrapped iterator (true since repair F19).",
         "The sequential corollary (a single-threaded history equals the sequential iterator) is not stated as a theorem: it is the one-thread instance together with C02/C03."),
 "C05": ("Coq proof (monotone counter; completed flag / exhausted cursor are stable and every later pull is doomed not to take) + lock-step correspondence",
         PRE + "c05_end_is_permanent (all kinds): chk_C05 = after an end report every later-starting pull reports the end and delivers nothing and every later length query reports zero / unknown. c05_end_is_permanent holds for wrapped iterators that are NOT fused as well (src_env does not mention e_gap); c05_end_is_permanent_any_iterator states it for them explicitly (check_prop 5). The crate's non-fused histories run in lock step with the model.", ""),
 "C06": ("Coq proof (invariants with skip bookkeeping; wrapped iterator: skip raises the completed flag, which every later pull tests first) + lock-step correspondence",
         PRE + "c06_skip_to_end (all kinds): check_prop 6 = chk_C06 on every run: after a returned skip_to_end later-starting pulls report the end and has_more is No; no position twice; index fidelity; per-thread order; any number of skips anywhere. The theorem assumes `fused e`; c06_skip_stops_any_iterator (any wrapped iterator: chk_C06_stop = after a returned skip later-starting pulls report the end and has_more is No), c06_skip_to_end_until_first_gap (check_prop 6 in full up to the first premature None). c06_skip_to_end_any_iterator: check_prop 6 in full for ANY wrapped iterator (true since repair F19).",
         "That elements delivered before the skip stay valid is the ledger of C08, not part of this checker. Found F13 (range skip stored the end value), repaired by a fix: commit."),
 "C07": ("Coq proof (ticket-protocol invariant => mutual exclusion; vector-clock invariant over the orderings extracted from the source => happens-before) + translator for the memory orderings + lock-step correspondence with orderings compared",
         "THE PROPERTY DOES NOT HOLD ON THE TREE WITHOUT RESTRICTION (known finding F14: a cumulative reservation of 2^64 or more wraps the reserved counter and two pullers enter the wrapped next() together); what is proved is its restriction to runs that do not wrap. " + PRE +
         "c07_mutual_exclusion (wrapped): in every reachable state at most one thread is between its entry to and exit from the wrapped iterator. c07_happens_before (wrapped): chk_C07_hb is true on the label stream: every use of the wrapped iterator happens-after the previous one under the C11 release/acquire rules, for the orderings that tools/extract_orderings.py reads out of the source on every run (obligation on the source: sufficient = true). c07_label_stream_scan (wrapped): the mutual-exclusion scan of the label stream is true. The same extracted checker (scan + vector clocks) judges the crate's label streams, whose orderings are reported by the shim. c07_no_call_after_none / c07_no_call_after_none_or_panic / c07_none_is_final (wrapped, any e_gap): once a call of the wrapped next() has answered None (or panicked), no label of the run is a later call of it, no thread is inside it, and the completed flag is up or the thread that met the end is about to raise it -- the wrapped iterator observes the use `next()* until the first None` of a sequential for-loop, also when it is not fused (repair F19).",
         "Happens-before is computed over sequentially consistent interleavings of the atomics (every load reads the latest write); that this is enough for this protocol under weaker executions is argued informally, not proved. Only the wrapped iterator's cell is a non-atomic location of the model: races on slices, vector elements and buffers are excluded through C01/C08 (disjoint positions), not by a memory-model theorem (partial)."),
 "C08": ("Coq proof (ledger invariants: taken and destroyed positions tile / are a permutation of what was reserved / yielded) + drop-ledger correspondence",
         PRE + "c08_known_kinds_run (known kinds): chk_C08 at every point of every run = for consuming vectors and arrays the moved-out and the machinery-destroyed intervals are pairwise disjoint and inside the source; for borrowed sources nothing is destroyed. c08_known_kinds_end_of_life: after drop or into_seq_iter (any number taken from the remainder) at any quiescent point they are also all of the source. c08_wrapped_iterator_run / c08_wrapped_iterator_end_of_life (wrapped, owning or not, with the re-used buffer's stale slots, panics of the wrapped iterator and of closures): the same; the end-of-life theorem additionally assumes that every thread has dropped its buffered iterator. On the crate chunks are also consumed through nth, skip, last, count, fold, step_by (ledger-only stream).",
         "The internal invariant of the wrapped iterator (positions handed out, destroyed, held and sitting in buffer slots are a permutation of [0, cursor)) is in proofs/IterLedger.v; the props theorem states chk_C08."),
 "C09": ("Coq proof (wait-freedom of the known-size kinds by a per-thread step budget; termination of the wrapped iterator under every fair schedule by a potential function and the ticket-coverage invariant) + frozen-thread adversary and hang detection on the crate",
         PRE + "c09_known_kinds_wait_free (known kinds): in every reachable state a thread inside a call has returned after at most budget (1; for loops one pull per element still to be handed out plus one) of ITS OWN steps in ANY continuation -- the other threads may take any steps or none. c09_wrapped_iterator_fair_termination (wrapped): in any continuation made of stretches in each of which every thread takes at least two steps, once there have been more stretches than the potential phi of the state, every thread has finished its program and no call is pending. On the crate: hang detection on every case (step budget), deadlock detection in the DFS of tiny configurations, and on the known kinds one thread frozen at every early point while the others must finish; the extracted checker used for this property's traces is chk_C05 only, progress itself is judged by the scheduler.",
         "Fairness is stated finitarily; the bound phi is not claimed to be tight. Nothing is proved for runs that wrap the counters."),
 "C10": ("Coq proof (quiescent-state tiling) + correspondence on into_seq_iter results",
         PRE + "c10_known_kinds, c10_wrapped_iterator: chk_C10 = at every quiescent point (no call pending) into_seq_iter yields exactly the elements from the delivered prefix on, in order; after skip_to_end a suffix of the undelivered elements.",
         "chk_C10 is vacuous on runs in which an operation panicked before."),
 "C11": ("Coq proof (quiescent-state tiling + monotone reported length; for the wrapped iterator one more invariant layer over protocol, flag and coverage invariants) + lock-step correspondence",
         PRE + "c11_known_kinds, c11_wrapped_iterator: chk_C11 = a query made and answered while nothing else is pending (and no panic so far) equals the number of elements still to be delivered (known length) or is unknown only for sources without an exact hint; after a single or one-shot pull reported the end the answer is zero; at any time a reported length never exceeds the smallest reported before; once zero has been reported every later-starting operation delivers nothing. c11_wrapped_iterator assumes `fused e` (an exact size hint of an iterator that ends early is not truthful); c11_wrapped_iterator_any_iterator: the same for every wrapped iterator without an exact hint, fused or not; c11_wrapped_iterator_until_first_gap: with any hint up to the first premature None.",
         "The exact size hint of the wrapped iterator is assumed truthful. The checker identifies Yes(0) with No; 'Maybe only for unknown size' is constrained at quiescent queries only."),
 "C12": ("Coq proof (loop accumulator invariant on both machines; permutation argument for fold) + lock-step correspondence",
         PRE + "c12_loops (all kinds): check_prop 12 = closure invocations carry the right index shape, no position twice, index fidelity, end permanence (on every run), and on runs without skip and panic the deliveries tile the source once the end is reported and nothing is pending (a returned loop is an end report). c12_fold_combination (all kinds, complete runs without skip and panic): for every type with an associative and commutative operation and its neutral element and every f, folding what each thread was handed and combining the per-thread results equals the fold of f over the source positions. Both theorems assume `fused e`; c12_loop_shape_any_iterator (index shape and end permanence for any wrapped iterator), c12_loops_until_first_gap (check_prop 12 in full up to the first premature None). c12_loops_but_no_loss_any_iterator (shape, no position twice, index fidelity, end permanence for ANY wrapped iterator) and c12_loops_any_iterator (check_prop 12 judged against the environment cut at the first premature None).", ""),
 "C13": ("Coq proof (the model gives the adaptors no behaviour of their own; the adaptors' source is pinned to the reviewed forwarding code by a translator; ledger theorem for borrowed sources) + twin lock-step correspondence on the crate",
         PRE + "c13_adaptor_transparent (every environment, no hypothesis): the run and the end of life of the model under cloned()/copied() equal those of the underlying iterator as whole configurations -- true by construction (step never reads e_adaptor). c13_adaptors_are_the_reviewed_forwarders: the list of every method of Cloned / Copied / their buffered chunks with its body, regenerated from the source on every run (tools/extract_adaptors.py), equals the reviewed list in which every method forwards to the underlying iterator and clones / copies what comes back, and fetch_one is not overridden. c13_source_untouched (known kinds, borrowed) and c13_borrowed_source_untouched (every kind whose elements are not owned, no hypothesis on the run): no event reports a destroyed element. On the crate every adaptor history is also run on an identical underlying iterator under the same schedule and the event streams must be equal.",
         "That the delivered values are clones of exactly the elements is decided on the crate only (values are positions in the model)."),
 "C14": ("Coq proof of bounds entailment and of the public surface over declarations regenerated from the source by translators + compile probes (must-reject program with must-compile twin) and run-time ownership probes built against the current tree",
         "THE PROPERTY DOES NOT HOLD ON THE TREE (known findings F10: nothing is demanded of the wrapped iterator type; F11, F15: the low-level AtomicIter / AtomicCounter::store surface is safe and public). Theorems in props/C14.v (40) over gen/Bounds.v and gen/Surface.v, regenerated on every run (fail closed): the lists of every unsafe impl Send/Sync, constructor and ConcurrentIter impl found in the source equal the lists the proofs know; for each, forall flags, declared flags = true -> required flags = true, where required_* is a hand-derived table (a role whose value is used by value by another thread must be Send, a role shared by reference must be Sync); for ConIterOfIter the entailment is refuted with a witness (F10); the modules a client can name are the reviewed ones and the modules holding the internal protocols are private. Lifetimes, borrows and 'no two owners through safe calls' are decided by rustc and by execution on probe programs: 58 compile pairs (52 in the quick tier) and 3 run-time ownership probes.",
         "No model of rustc's borrow checker: the lifetime clauses are translation validation on a finite probe family, as the property's own quantifier says (partial). The required_* table is part of the trusted base."),
 "C15": ("Coq proof (element half: ledger at the end of life) + counting global allocator and zero-sized-element drop counts on the crate (block half)",
         PRE + "c15_every_element_released_exactly_once (consuming vectors and arrays): at any quiescent point, after drop or into_seq_iter with any number of elements taken, the positions handed out and destroyed are pairwise disjoint, inside the collection and all of it. c15_wrapped_iterator_end_of_life (wrapped, owning): chk_C08 after the end of life once every thread has dropped its buffered iterator. Block half on the crate: every history is run three times in one process under a counting global allocator and live bytes / blocks must not grow from the second repetition on (a growth must grow further on six and twelve repetitions to be reported); zero-sized elements with a destructor: drops by the caller plus destructions by the machinery equal the length.",
         "Heap blocks are not objects of the Coq model: that half of the property is decided by the allocator measurement, which is testing (partial)."),
 "C16": ("Coq proof (lia over the machine-word arithmetic layer; run-level invariant: no panic but the documented ones) + boundary-matrix correspondence in both profiles",
         "THE PROPERTY DOES NOT HOLD ON THE TREE AT THE EXTREME OF ITS DOMAIN (known findings F14, F16: histories whose reservations add up to 2^64 or more wrap a counter); the run-level theorems exclude exactly those histories by nowrap. " + PRE +
         "c16_pull_arithmetic / c16_delivered_interval (known kinds; about the function k_pull, no run hypothesis): for ALL counter values b and request sizes n below 2^64, all lengths and range bounds, a well-formed request computes exactly [b, b+min(n,len-b)) or the end, never panics, in both overflow modes. c16_runs_known_kinds / c16_end_of_life_known_kinds and c16_runs_wrapped_iterator / c16_end_of_life_wrapped_iterator (wrapped: e_crash = None), for programs whose closures are not told to panic and that pull from a buffered iterator only while they have one (plain_progs): chk_C16 = no operation panics except buffered_iter(0) and loops with chunk size zero, which must; next_chunk(0) reports the end; drop and into_seq_iter never panic. Correct indices and non-empty chunks at the boundaries are c02_index_fidelity / c03_chunk_contract. The boundary matrix runs on the crate in the debug and the release harness, judged by chk_C16, chk_C02, chk_C03 and 'no position twice'; a panic with an undocumented message is a violation.", ""),
 "C17": ("Coq proof (mode independence of whole runs and of the end of life; no panic in either mode) + two-profile correspondence",
         PRE + "c17_runs_mode_independent / c17_end_of_life_mode_independent (all kinds): the run and the end of life of the model are the same configuration whatever the overflow mode (Checked: overflow panics; Wrapping). c17_pull_same_in_both_modes (known kinds): the same for a single pull, for all inputs. c17_no_panic_known_kinds / c17_no_panic_wrapped_iterator (wrapped: e_crash = None), for plain_progs without zero chunk sizes: nothing panics. On the crate identical histories are executed by the debug and the release harness and compared with the model in both modes, with the drop ledger.",
         "Documented preconditions of the std operations the crate builds on are represented only through the model's ledger and the absence of aborts in the debug profile (correspondence only)."),
 "C18": ("Coq proof (crash points are part of the environment and of the programs: invariants, ledgers and progress theorems quantify over them) + fault injection at every crash point on the crate with hang detection and drop ledger",
         PRE + "c18_no_duplicate (all kinds, every crash point of the wrapped next() and of the closures): no position is delivered twice. c18_others_return_known_kinds / c18_others_return_wrapped_iterator: the C09 theorems, whose environments include the crash points. c18_ledger_known_kinds (run and end of life) and c18_ledger_wrapped_iterator (run; the end of life is c08_wrapped_iterator_end_of_life, which assumes the buffered iterators were dropped): chk_C08. On the crate the generator injects a panic at every position, the scheduler detects calls that never return, chk_C08, chk_C02 and 'no position twice' judge the traces. c18_no_duplicate assumes `fused e`; c18_no_duplicate_any_iterator: no position is moved out to two callers for any wrapped iterator, fused or not, at every crash point.",
         "A panic of the k-th clone of an element is a crash kind of the harness only: a checker-only stream on the crate (cloned() over slices and over wrapped iterators of references; index fidelity, end permanence, source untouched, hang detection); the model has no such crash point (partial on that clause)."),
 "C19": ("Coq proof (family of iterators as a list of configurations: non-interference; clone copies the position; a clone behaves like an iterator, by simulation; ledger for the borrowed source) + multi-iterator histories on the crate projected onto single iterators",
         PRE + "c19_iterators_are_independent (no hypothesis): in any interleaved history of steps and clonings the configuration of each iterator is the one it reaches alone under the steps taken on it -- true by construction of the family model. c19_clone_starts_at_current_position. c19_clone_behaves_like_an_iterator (slices and ranges, clone taken at any position k < 2^64): no position twice, nothing below min(k, len), index fidelity, chunk contract, end permanence -- the clone's run is the tail of a run from position 0 in which an extra thread consumed the prefix. c19_source_left_intact / c19_borrowed_source_untouched: no event reports a destroyed element. On the crate: histories over 1-2 fresh iterators and the clones that 1-3 threads make at arbitrary points; every single iterator's history is projected out and replayed on the single-iterator model from the position the clone read; a clone must read the original's counter exactly once, start there and write nothing to the original; the address of every delivered reference is compared with the collection's element; the collection is re-read; a run-time probe clones through a shared reference with a non-Clone element type.",
         "That references point at the original elements and that the collection is unmodified and usable afterwards are decided on the crate only (correspondence)."),
}

NOT_YET = {
}


def cross_check():
    """every theorem named in a claim exists in coq/props, and every theorem of props/Cxx.v is named in the claim of Cxx"""
    import re, glob
    have = {}
    for f in glob.glob(os.path.join(ROOT, "coq", "props", "C*.v")):
        pid = os.path.basename(f)[:-2]
        have[pid] = set(re.findall(r"^Theorem\s+([A-Za-z0-9_']+)", open(f).read(), re.M))
    allnames = set().union(*have.values())
    bad = []
    for pid, (tech, text, note) in sorted(P.items()):
        named = set(re.findall(r"\bc\d\d_[a-z0-9_]+", text + " " + note))
        # a/b shorthand: c08_x / c08_y are both written out; names must exist somewhere in props
        for n in sorted(named):
            if n not in allnames:
                bad.append("%s: claim names %s, which is no theorem of coq/props" % (pid, n))
        if pid != "C14":
            for n in sorted(have.get(pid, ())):
                if n not in named:
                    bad.append("%s: theorem %s of props/%s.v is not named in the claim" % (pid, n, pid))
    if bad:
        raise SystemExit("gen_manifest: " + "; ".join(bad))


def main():
    cross_check()
    checks = []
    for pid in sorted(P):
        tech, text, note = P[pid]
        checks.append({
            "property_id": pid,
            "quick_cmd": "./check %s --tier quick" % pid,
            "thorough_cmd": "./check %s --tier thorough" % pid,
            "evidence_file": "/verif/evidence/%s.json" % pid,
            "replay_cmd_template": "./check %s --replay {path}" % pid,
            "engine": "coq-model+lockstep",
            "level_claimed": {"category": "proof", "text": text, "design_ref": "DESIGN.md section 3 (%s), section 8" % pid},
            "level_note": note + " " + COMMON_NOTE,
            "technique": tech,
        })
    m = {
        "version": 1,
        "setup_cmd": "./setup.sh",
        "hooks": {
            "guard": "orx_concurrent_iter_verif",
            "enable": "RUSTFLAGS=\"--cfg orx_concurrent_iter_verif\" (set by the harness build in tools/verif_lib.py and setup.sh)",
            "baseline_off_cmd": "cd /repo && cargo test --workspace --no-fail-fast --offline",
            "source_commits": ["a3f1f02415d1b11c2939e9165340897146fca54a"],
            "add_only": True,
        },
        "engines": [{
            "name": "coq-model+lockstep", "path": "/verif/check",
            "serves_properties": sorted(P),
            "kind_free_text": "Coq 8.16 development (coq/theories: executable model and checkers; coq/proofs: invariants; coq/props: the property theorems) + extraction to OCaml + Rust harness replaying schedules on the crate through a cfg-guarded atomic shim",
        }],
        "checks": checks,
        "not_applicable": [{"property_id": k, "reason": v} for k, v in sorted(NOT_YET.items())],
        "notes": "See DESIGN.md. known_findings.json lists repaired (fixed:) and open findings.",
    }
    json.dump(m, open(os.path.join(ROOT, "MANIFEST.json"), "w"), indent=1)


if __name__ == "__main__":
    main()
