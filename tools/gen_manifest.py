#!/usr/bin/env python3
"""writes /verif/MANIFEST.json from the table below (one place to keep the claims current)"""
import json, os
ROOT = os.path.dirname(os.path.dirname(os.path.abspath(__file__)))

COMMON_NOTE = ("Trusted: Coq 8.16.1 kernel (coqc; coqchk -o in the thorough tier); no axioms (Print Assumptions of every theorem is "
               "'Closed under the global context', checked on every run against an empty allow-list); vm_compute only in witness lemmas, no native_compute; "
               "extraction with ExtrOcamlBasic only and ocaml/drv.ml; the correspondence check (src/verif_shim.rs in /repo, /verif/harness, tools/*.py), which is "
               "differential testing; std atomics / Vec / ptr operations are modelled, not verified. The theorems are about coq/theories/Machine.v, a hand-written "
               "model tied to /repo on every run by lock-step replay and by evaluating the extracted checker on the implementation's traces.")

# id -> (claimed?, technique, level text, extra note)
P = {
 "C01": ('Coq proof (inductive tiling invariants over all schedules: counter machine and ticket machine) + lock-step correspondence',
         "Theorem c01_exactly_once: for every source kind (slice, vector, array, range, also under cloned()/copied(); the wrapper over an arbitrary iterator with any size hint), every length, every thread count, every per-thread program and every schedule whose fetch_adds do not wrap, check_prop 1 (no position delivered twice; once the end is reported and nothing is pending the deliveries tile the source) is true on the model's trace. Proved from two inductive invariants: delivered/held intervals tile [0, min(counter,len)) for the known-size kinds, and [0, cursor) for the wrapped iterator together with the ticket-protocol invariant Prot (disjoint tickets, the ticket at the yielded counter owns the critical section, taken elements are the positions [b, b+k)). The same extracted checker judges the crate's traces on generated, DFS-enumerated and harness-chosen schedules.",
         'The model executes one call of the wrapped next() as one step; that abstraction is justified by the mutual-exclusion theorem c07_mutual_exclusion proved on the same machine.'),
 "C02": ('Coq proof (per-event invariant; for the wrapped iterator: taken elements are [b, b+k) where b is the ticket) + lock-step correspondence',
         "Theorem c02_index_fidelity: for every source kind (slice, vector, array, range, also under cloned()/copied(); the wrapper over an arbitrary iterator with any size hint), every length, every thread count, every per-thread program and every schedule whose fetch_adds do not wrap, chk_C02 (every reported index is the element's source position: single pulls, chunk offsets, ids_and_values, enumerate_for_each) holds on the model's trace.",
         'Sources whose values are an injective non-identity function of the position are used on the crate side so that index/value mix-ups cannot cancel.'),
 "C03": ("Coq proof (per-event invariant, chunk arithmetic by lia; partial chunks of the ticket machine end at the source's end) + lock-step correspondence",
         "Theorem c03_chunk_contract: for every source kind (slice, vector, array, range, also under cloned()/copied(); the wrapper over an arbitrary iterator with any size hint), every length, every thread count, every per-thread program and every schedule whose fetch_adds do not wrap, chk_C03 (chunk non-empty, <= n, consecutive from the begin index, announced length exact before and after partial consumption, short only at the end of the source) on the model's trace, one-shot and buffered.",
         "The slots of the wrapped iterator's re-used buffer are modelled; the announced/yielded counts of the crate are compared by the correspondence (generator leaves chunks partly consumed before short last chunks)."),
 "C05": ('Coq proof (monotone counter; completed flag / exhausted cursor are stable and every later pull is doomed not to take) + lock-step correspondence',
         "Theorem c05_end_is_permanent: for every source kind (slice, vector, array, range, also under cloned()/copied(); the wrapper over an arbitrary iterator with any size hint), every length, every thread count, every per-thread program and every schedule whose fetch_adds do not wrap, chk_C05 (after an end report every later-starting pull reports the end and delivers nothing, every later length query reports zero/unknown) on the model's trace.",
         ''),
 "C06": ('Coq proof (invariants with skip bookkeeping; for the wrapped iterator: skip raises the completed flag, which every later pull tests first) + lock-step correspondence',
         "Theorem c06_skip_to_end: for every source kind (slice, vector, array, range, also under cloned()/copied(); the wrapper over an arbitrary iterator with any size hint), every length, every thread count, every per-thread program and every schedule whose fetch_adds do not wrap, check_prop 6 (after a returned skip_to_end later pulls report the end and has_more is No; no duplicate, index fidelity, order) on the model's trace with any number of skips anywhere.",
         'Found F13 (range skip stored the end value), repaired by a fix: commit.'),
 "C11": ("Coq proof (quiescent-state tiling + monotone reported length) + lock-step correspondence",
         "Theorem c11_known_kinds: chk_C11 (quiescent try_get_len/has_more equal the number of elements still to be delivered; reported lengths never increase; zero/No is definitive) on every trace of the known-size kinds.",
         "Known-size kinds proved; wrapped iterator (exact/inexact/unbounded hints) by correspondence + extracted checker (partial)."),
 "C12": ('Coq proof (loop accumulator invariant on both machines) + lock-step correspondence',
         'Theorem c12_loops: for every source kind (slice, vector, array, range, also under cloned()/copied(); the wrapper over an arbitrary iterator with any size hint), every length, every thread count, every per-thread program and every schedule whose fetch_adds do not wrap, check_prop 12 (closure invoked exactly once per element with the right index shape; loops return only after the end) for for_each/enumerate_for_each/fold loops of any chunk sizes mixed with direct pulls.',
         'The fold-combination clause (commutative monoid) is not stated in Coq yet (partial on that clause).'),
 "C04": ('Coq proof (tiling invariants; everything else lies below the interval at the top; induction over the schedule for the quiescent prefix) + lock-step correspondence with call/return times',
         "Theorem c04_linearizable_cursor: for every source kind (slice, vector, array, range, also under cloned()/copied(); the wrapper over an arbitrary iterator with any size hint), every length, every thread count, every per-thread program and every schedule whose fetch_adds do not wrap, check_prop 4 (at every point of the history where no call is pending the delivered positions are a gap-free prefix; each thread receives increasing positions; a pull that starts after another returned receives larger positions) on the model's trace, skips included.",
         'The sequential corollary (single-threaded history = sequential iterator) is the one-thread instance together with C02/C03.'),
 "C07": ("Coq proof (ticket-protocol invariant Prot => mutual exclusion; vector-clock invariant over the orderings extracted from the source => happens-before) + translator for the memory orderings + lock-step correspondence with orderings compared",
         "Theorems c07_mutual_exclusion and c07_happens_before: for the wrapper over an arbitrary iterator, every size hint, every thread count, every per-thread program (single, chunk, buffered pulls, loops, skip_to_end, length queries) and every schedule whose fetch_adds do not wrap: in every reachable state at most one thread is between its entry to and exit from the wrapped iterator, and chk_C07_hb (vector clocks computed with the C11 release/acquire rules from the orderings that tools/extract_orderings.py reads out of src/iter/atomic_counter.rs and src/iter/implementors/iter.rs on every run; every use of the wrapped iterator happens-after the previous use) is true on the model's label stream. The proof obligation about the source is `sufficient = true` (acquire reads / release read-modify-writes of the yielded counter); the same extracted checker (mutual exclusion scan + vector clocks) judges the crate's label streams, whose orderings are reported by the shim.",
         "Partial on the last sentence of the property: races on other non-atomic state (slices, vector elements, buffers) are excluded through C01/C08 (disjoint positions) and not by a separate memory-model theorem; the happens-before relation is computed over sequentially consistent interleavings of the atomics (values read are the latest written), which is exact for this protocol because every atomic involved in the hand-off is accessed by read-modify-write or acquire/release pairs on one location. Runs that wrap the reserved counter are known finding F14."),
 "C08": ("Coq proof (ledger tiling invariant: taken and destroyed intervals tile [0, min(counter,len))) + drop-ledger correspondence",
         "Theorems c08_known_kinds_run / c08_known_kinds_end_of_life: for consuming vectors and arrays, at every point of every schedule the moved-out and the machinery-destroyed intervals are pairwise disjoint and inside the source, and after drop or into_seq_iter (any number taken from the remainder) at any quiescent point they tile the source exactly: every element moved out or destroyed exactly once; for borrowed sources nothing is ever destroyed.",
         "Known-size consuming kinds proved; owning wrapped iterator by correspondence + extracted checker (partial)."),
 "C09": ("Coq proof (wait-freedom of the known-size kinds by a per-thread step budget; termination of the wrapper over an arbitrary iterator under every fair schedule by a potential function, the ticket-coverage invariant and a two-steps-per-thread fairness unit) + frozen-thread adversary and hang detection on the crate + lock-step correspondence",
         "Theorem c09_known_kinds_wait_free: in every reachable state of a known-size kind (slice, vector, array, range, under any adaptor), a thread inside a call has returned after at most budget (1 for every operation, one pull per element still to be handed out plus one for the loops) of ITS OWN steps in ANY continuation of the schedule -- the other threads may take any steps or none, so a thread frozen anywhere for ever delays nobody. Theorem c09_wrapped_iterator_fair_termination: for the wrapper over an arbitrary iterator (any size hint, any crash point of the wrapped iterator and of the closures), after any schedule, in any continuation made of stretches in each of which every thread takes at least two steps, once there have been more stretches than the potential phi of the state, every thread has finished its program and no call is pending. Proved with a potential that no step increases and every step other than a turn of the waiting loop decreases, and the invariant that, while the completed flag is down, the live tickets cover [yielded, reserved), so the ticket at the yielded counter is alive. On the crate: every case runs under a scheduler that reports a call that never returns (hang), all interleavings of tiny configurations are enumerated with parked spinners (deadlock detection in the model), and on the known-size kinds one thread is frozen at an arbitrary point while the others must finish; the schedules chosen under that adversary are replayed in lock-step on the model.",
         "Fairness is stated finitarily (stretches with two steps of every thread) instead of coinductively; the bound phi is not claimed to be tight. The theorems assume the run does not wrap the counters (nowrap); wrapped runs are known finding F14."),
 "C10": ("Coq proof (quiescent-state tiling) + correspondence on into_seq_iter results",
         "Theorem c10_known_kinds: at every quiescent point of every schedule, into_seq_iter of a known-size kind yields exactly the elements from the delivered prefix on (all of them, in order, nothing duplicated or lost); after skip_to_end a suffix of the undelivered elements.",
         "Known-size kinds proved; wrapped iterator by correspondence + extracted checker (partial)."),
 "C13": ("Coq proof (the model gives the adaptors no behaviour of their own: equality of whole configurations for every schedule; ledger theorem: nothing of a borrowed source is ever destroyed) + twin lock-step correspondence on the crate (adaptor vs. its underlying iterator under the same schedule) + lock-step correspondence with the model",
         "Theorems c13_adaptor_transparent (for every environment, adaptor, program and schedule, the run and the end of life of the model under cloned()/copied() are equal, as whole configurations, to those of the underlying iterator: same results, indices, chunk boundaries, lengths, end and skip behaviour, same counters) and c13_source_untouched (for the known-size reference-yielding kinds, under any adaptor, no element of the source is destroyed by the machinery at any point of any schedule nor at the end of life). On the crate: every generated history is run on the adaptor and on an identical underlying reference-yielding iterator under the same schedule and the two event streams must be equal (this comparison does not go through the model); both are also compared with the model, and the extracted checkers (exactly-once, index fidelity, chunk contract, end, skip, ledger) judge the adaptor's traces.",
         "The transparency theorem is true by the construction of the model (step never reads e_adaptor); its content is that every other theorem of the development is thereby a theorem about the adaptors, and the tie to the crate's Cloned/Copied is the twin comparison, which is differential testing. The wrapped iterator of references under cloned() is covered by the ledger checker on traces, not by a theorem (partial there)."),
 "C18": ("Coq proof (crash points are part of the environment and of the programs: the invariants, the ledger and the progress theorems quantify over them) + fault injection at every crash point on the crate with hang detection and drop ledger",
         "Theorems c18_no_duplicate (every source kind, every crash point of the wrapped iterator's next() and of the closures, every schedule: no position is delivered twice), c18_others_return_known_kinds (wait-freedom: the other threads' calls return within their own step budget whatever the panicking thread did), c18_others_return_wrapped_iterator (fair termination of every call when the wrapped iterator panics at its k-th call, for every k, single, chunked and buffered pulls and loops) and c18_ledger_known_kinds (consumed vectors and arrays: every element moved out or destroyed exactly once, also when closures panic, at every point and at the end of life). On the crate: the generator injects a panic at every position of the wrapped iterator and of the closures, the scheduler detects calls that never return, the extracted ledger and index checkers judge the traces.",
         "Panics of an element's clone (cloned() adaptor) are exercised on the crate only through the closure crash points, not as a separate crash kind of the model (partial on that clause); the ledger of the owning wrapped iterator under panics is judged by the extracted checker on traces, not yet by a theorem."),
 "C14": ("Coq proof of bounds entailment over declarations regenerated from the source by a translator (every unsafe impl Send/Sync, constructor, adaptor and ConcurrentIter impl; refutation with witness for the known finding) + compile probes (must-reject program with its must-compile twin) and run-time ownership probes built against the current tree",
         "Theorems in props/C14.v (38): c14_every_unsafe_impl_is_covered / c14_every_constructor_is_covered / c14_every_concurrent_iter_impl_is_covered (the lists the translator extracts from src/**/*.rs equal the lists the proofs know, so a new unsafe impl or constructor breaks a proof), and for each of them `forall flags, declared flags = true -> required flags = true`, where declared_* is generated from the where-clauses and supertraits of the source on every run (tools/extract_bounds.py -> coq/gen/Bounds.v, fail closed) and required_* is derived from how the type is used across threads (Moves role => Send, Shares role => Sync). For ConIterOfIter the entailment is false on the pinned tree: c14_ConIterOfIter_{sync,send}_refuted, c14_impl_ConIterOfIter_refuted, c14_ctor_iter_refuted are proved with a witness (known finding F10). The borrow / lifetime clauses and the 'no two owners through safe calls' clause are decided by rustc and by execution: 52 probe pairs (each a minimal client that must be rejected with an expected error class and a twin that must compile) over every constructor, adaptor, chunk, buffered iterator, wrapper and the low-level AtomicIter surface, and 3 run-time ownership probes under a drop ledger.",
         "No model of rustc's borrow checker is attempted: the lifetime clauses are translation validation on a finite probe family (partial), as the property's quantifier itself says. The required_* sets are hand-derived from the concurrency model and are part of the trusted base of this property."),
 "C15": ("Coq proof (element half: ledger tiling at the end of life) + counting global allocator and zero-sized-element drop counts on the crate (block half)",
         "Theorem c15_every_element_released_exactly_once: for consumed vectors and arrays, every length, every program and schedule, at any quiescent point, after drop or into_seq_iter with any number of elements taken from the remainder, the positions handed out and the positions destroyed by the machinery are pairwise disjoint, inside the collection and together all of it -- every element (and so whatever it owns) is released exactly once. On the crate: every generated history (create; consume fully, partly or not at all, sequentially or concurrently; drop or into_seq_iter) is run three times in one process under a counting global allocator and the live bytes and blocks of the process must not grow from the second repetition on (a growth is confirmed on six repetitions before it is reported); zero-sized elements with a destructor are run on vectors, arrays and owning wrapped iterators and the drops by the caller plus the destructions by the machinery must equal the length; the drop ledger and the extracted checker chk_C08 judge every trace.",
         "Heap blocks (the consumed vector's buffer, the buffers of buffered iterators) are not objects of the Coq model: that half of the property is decided by the allocator measurement, which is testing (partial). The owning wrapped iterator's element ledger is judged by the extracted checker on traces, not by a theorem."),
 "C16": ("Coq proof (lia over the machine-word arithmetic layer) + boundary-matrix correspondence in both profiles",
         "Theorems c16_pull_arithmetic / c16_delivered_interval: for ALL b, n < 2^64, all lengths and all range bounds below 2^64, every pull of a known-size kind computes exactly [b, b+min(n,len-b)) (or the end), never panics, in both build modes. The boundary matrix of the property runs on the crate in the debug and the release harness and is compared with the model and judged by chk_C16/C02/C03.",
         "Run-level statement (chk_C16 on whole traces) is checked on implementation and model traces, not yet proved as a theorem; the wrapped iterator's reserved-counter wrap is known finding F14."),
 "C17": ("Coq proof (mode-independence of the arithmetic layer) + two-profile correspondence",
         "Theorem c17_pull_same_in_both_modes: the result of every pull of a known-size kind is the same in Checked and Wrapping mode for all inputs; identical histories are executed by the debug and the release harness and compared with the model in both modes, with the drop ledger.",
         "std preconditions are represented only through the model's ledger and the absence of aborts in the debug profile."),
}

NOT_YET = {
 "C19": "multi-iterator model in progress; not claimed in this snapshot",
}


def main():
    checks = []
    for pid in sorted(P):
        tech, text, note = P[pid]
        checks.append({
            "property_id": pid,
            "quick_cmd": "./check %s --tier quick" % pid,
            "thorough_cmd": "./check %s --tier thorough" % pid,
            "evidence_file": "/verif/evidence/%s.json" % pid,
            "replay_cmd_template": "./check %s --replay {path}" % pid,
            "engine": "coq-model+lockstep",
            "level_claimed": {"category": "proof", "text": text, "design_ref": "DESIGN.md section 3 (%s), section 9" % pid},
            "level_note": note + " " + COMMON_NOTE,
            "technique": tech,
        })
    m = {
        "version": 1,
        "setup_cmd": "./setup.sh",
        "hooks": {
            "guard": "orx_concurrent_iter_verif",
            "enable": "RUSTFLAGS=\"--cfg orx_concurrent_iter_verif\" (set by the harness build in tools/verif_lib.py and setup.sh)",
            "baseline_off_cmd": "cd /repo && cargo test --workspace --no-fail-fast --offline",
            "source_commits": ["a3f1f02415d1b11c2939e9165340897146fca54a"],
            "add_only": True,
        },
        "engines": [{
            "name": "coq-model+lockstep", "path": "/verif/check",
            "serves_properties": sorted(P),
            "kind_free_text": "Coq 8.16 development (coq/theories: executable model and checkers; coq/proofs: invariants; coq/props: the property theorems) + extraction to OCaml + Rust harness replaying schedules on the crate through a cfg-guarded atomic shim",
        }],
        "checks": checks,
        "not_applicable": [{"property_id": k, "reason": v} for k, v in sorted(NOT_YET.items())],
        "notes": "See DESIGN.md. known_findings.json lists repaired (fixed:) and open findings.",
    }
    json.dump(m, open(os.path.join(ROOT, "MANIFEST.json"), "w"), indent=1)


if __name__ == "__main__":
    main()
