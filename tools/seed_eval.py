#!/usr/bin/env python3
"""tools/seed_eval.py <seed-id> [Cxx ...]: applies seeded/<seed-id>/patch.diff to /repo, runs the quick checks
of the given properties (default: the seed's own property), undoes the patch, prints one line per check."""
import sys, os, subprocess, json, re
ROOT = os.path.dirname(os.path.dirname(os.path.abspath(__file__)))


def sh(cmd, **kw):
    return subprocess.run(cmd, shell=True, stdout=subprocess.PIPE, stderr=subprocess.STDOUT, **kw)


def main():
    seed = sys.argv[1]
    props = sys.argv[2:] or [seed.split("-")[0]]
    patch = os.path.join(ROOT, "seeded", seed, "patch.diff")
    st = sh("git -C /repo status --porcelain").stdout.decode().strip()
    if st:
        print("refusing: /repo is not clean:\n" + st)
        return 2
    r = sh("git -C /repo apply %s" % patch)
    if r.returncode != 0:
        print("patch does not apply: " + r.stdout.decode())
        return 2
    out = {}
    try:
        for p in props:
            r = sh("cd %s && ./check %s --tier quick" % (ROOT, p), timeout=1800)
            txt = r.stdout.decode()
            viol = [l for l in txt.splitlines() if l.startswith("VIOLATION") or l.startswith("KNOWN-FINDING")]
            what = ""
            m = re.search(r"replay=(\S+)", " ".join(viol))
            if m and os.path.exists(m.group(1)):
                try:
                    rec = json.load(open(m.group(1)))
                    what = (rec.get("what") or "")[:160]
                    if rec.get("proof_obligations_that_do_not_check"):
                        what += " | " + "; ".join(rec["proof_obligations_that_do_not_check"])[:200]
                    if rec.get("first_divergence"):
                        what += " | first divergence: " + rec["first_divergence"]["what"][:200]
                except Exception as ex:
                    what = "?" + str(ex)
            out[p] = dict(exit=r.returncode, lines=viol, what=what, summary=txt.strip().splitlines()[-1] if txt.strip() else "")
            print("%s %s exit=%d %s %s" % (seed, p, r.returncode, "; ".join(viol) or "-", what))
            sys.stdout.flush()
    finally:
        sh("git -C /repo checkout -- .")
        sh("git -C /repo clean -fdq src")
        sh("for t in %s/tools/extract_*.py; do python3 $t /repo %s/coq/gen; done" % (ROOT, ROOT))
    json.dump(out, open(os.path.join(ROOT, "seeded", seed, "eval.json"), "w"), indent=1)
    return 0


if __name__ == "__main__":
    sys.exit(main())
