#!/usr/bin/env python3
"""prints a replay file compactly (schedules truncated)"""
import json, sys
r = json.load(open(sys.argv[1]))
def cut(l): return l if len(l) < 300 else l[:300] + "..."
print("WHAT:", r.get("what"))
for p in r.get("proof_obligations_that_do_not_check") or []:
    print("PROOF:", cut(p.replace("\n", " / ")))
d = r.get("first_divergence")
if d:
    print("DIVERGENCE:", d["what"], "| stream", d.get("stream"))
    r = d
print("\n".join(cut(l) for l in (r.get("case") or [])))
n = int(sys.argv[2]) if len(sys.argv) > 2 else 60
mt = r.get("model_trace") or []
it = r.get("impl_trace") or []
print("---- model | impl")
for k in range(min(n, max(len(mt), len(it)))):
    a = cut(mt[k]) if k < len(mt) else ""
    b = cut(it[k]) if k < len(it) else ""
    mark = "  " if a.split()[:7] == b.split()[:7] else "!="
    print("%-60s %s %s" % (a[:60], mark, b[:80]))
