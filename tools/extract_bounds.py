#!/usr/bin/env python3
"""tools/extract_bounds.py <repo> <gen-dir>: translates the thread-safety bounds that the crate DECLARES into
coq/gen/Bounds.v (property C14).  Run on every check.

What is read (every .rs file under <repo>/src, comments and string literals removed first):
  * every `unsafe impl<..> Tr for Ty<..> where ..` item.  For Tr in {Send, Sync} a boolean function
    `declared_<Ty>_<send|sync> (f : flags) : bool` is emitted: the conjunction of the Send/Sync facts that the
    impl header (generic parameter list and where-clause) demands of its type parameters.  A bound on a trait of
    the crate (`A: AtomicIter<&'a T>`) contributes what that trait's supertraits demand, transitively.
    Every unsafe impl found (whatever the trait) is listed in `all_impls`; coq/proofs/BoundsOk.v proves
    `all_impls = [...]` by reflexivity, so an unsafe impl the proofs do not know about breaks the build.
  * every trait of the crate: Send/Sync among its supertraits (`super_<Trait>_<send|sync> : bool`), the bounds of
    its associated types (`assoc_<Trait>_<Name>_<send|sync>`) and of its own type parameters
    (`param_<Trait>_<P>_<send|sync>`).
  * every impl of a constructor/adaptor trait (IntoConcurrentIter, ConcurrentIterable, IterIntoConcurrentIter,
    IntoCloned, IntoCopied): `ctor_<Trait>_<Self> (f : flags) : bool`, and the list `all_ctors`.
  * every impl of ConcurrentIter: `impl_ConcurrentIter_<Self> (f : flags) : bool`, and the list `all_con_iters`.

The flags: one pair of booleans (`<role>_send`, `<role>_sync`) per role a type parameter can play:
  t      the element type T
  iter   the wrapped sequential iterator (type parameter Iter of ConIterOfIter, Self of IterIntoConcurrentIter)
  inner  the inner concurrent iterator of an adaptor (type parameter A of Cloned / Copied)
  idx    the index type of a range
Roles are assigned by POSITION in the argument list of the self type (table TYPE_ROLES) or of the trait
(TRAIT_ARG_ROLES), never by the name the impl happens to give to its parameter.

Fails closed: anything that is not understood (a bound on a trait that is neither a trait of the crate nor in the
list of std traits known not to imply Send/Sync; a Send/Sync bound on something that is not a plain type
parameter with a role; a negative impl; two impls of the same trait for the same type ...) is an error and the
exit status is non-zero.  The output file is written only if its content changed."""
import os
import re
import sys


class Fail(Exception):
    pass


def die(msg):
    raise Fail(msg)


# --------------------------------------------------------------------------------------------------------------
# lexical layer

def strip_comments_and_strings(src, path):
    """removes // and /* */ comments (nested), replaces the content of string/char literals by nothing.
    Newlines are kept so that line numbers stay valid."""
    out = []
    i, n = 0, len(src)
    while i < n:
        c = src[i]
        two = src[i:i + 2]
        if two == "//":
            j = src.find("\n", i)
            i = n if j < 0 else j
        elif two == "/*":
            depth, i = 1, i + 2
            while i < n and depth:
                if src[i:i + 2] == "/*":
                    depth, i = depth + 1, i + 2
                elif src[i:i + 2] == "*/":
                    depth, i = depth - 1, i + 2
                else:
                    if src[i] == "\n":
                        out.append("\n")
                    i += 1
            if depth:
                die("%s: unterminated block comment" % path)
        elif c == '"' or (c in "rb" and re.match(r'(?:br|rb|r|b)#*"', src[i:i + 12]) and not (i and (src[i - 1].isalnum() or src[i - 1] == "_"))):
            m = re.match(r'(br|rb|r|b)?(#*)"', src[i:])
            raw = m.group(1) is not None and "r" in m.group(1)
            hashes = m.group(2)
            if hashes and not raw:
                die("%s: cannot lex string literal near offset %d" % (path, i))
            i += m.end()
            if raw:
                end = '"' + hashes
                j = src.find(end, i)
                if j < 0:
                    die("%s: unterminated raw string" % path)
                out.append('""' + "\n" * src.count("\n", i, j))
                i = j + len(end)
            else:
                while i < n and src[i] != '"':
                    if src[i] == "\\":
                        i += 1
                    if i < n and src[i] == "\n":
                        out.append("\n")
                    i += 1
                if i >= n:
                    die("%s: unterminated string literal" % path)
                out.append('""')
                i += 1
        elif c == "'":
            m = re.match(r"'(\\x[0-9a-fA-F]{2}|\\u\{[0-9a-fA-F_]+\}|\\.|[^\\'\n])'", src[i:])
            if m:
                out.append("' '")
                i += m.end()
            else:  # a lifetime
                out.append(c)
                i += 1
        else:
            out.append(c)
            i += 1
    return "".join(out)


OPEN, CLOSE = "<([{", ">)]}"


def scan_depth(s):
    """yields (index, char, depth-before) with `->` and `=>` not counted as closing brackets"""
    depth = 0
    i = 0
    while i < len(s):
        c = s[i]
        if c == ">" and i and s[i - 1] in "-=":
            yield i, c, depth
        elif c in OPEN:
            yield i, c, depth
            depth += 1
        elif c in CLOSE:
            depth -= 1
            if depth < 0:
                die("unbalanced brackets in `%s`" % s.strip()[:200])
            yield i, c, depth
        else:
            yield i, c, depth
        i += 1
    if depth != 0:
        die("unbalanced brackets in `%s`" % s.strip()[:200])


def split_top(s, sep):
    parts, last = [], 0
    for i, c, d in scan_depth(s):
        if c == sep and d == 0:
            parts.append(s[last:i])
            last = i + 1
    parts.append(s[last:])
    return [p.strip() for p in parts]


def find_top_word(s, word):
    """index of the first occurrence of the keyword at bracket depth 0, or -1"""
    for i, c, d in scan_depth(s):
        if d == 0 and s.startswith(word, i) and (i == 0 or not (s[i - 1].isalnum() or s[i - 1] == "_")) \
                and (i + len(word) == len(s) or not (s[i + len(word)].isalnum() or s[i + len(word)] == "_")):
            if word == "for" and s[i + 3:].lstrip().startswith("<"):
                continue  # for<'a> higher-ranked binder, not the `for` of an impl
            return i
    return -1


def take_angle(s):
    """s starts with '<': returns (inside, rest)"""
    for i, c, d in scan_depth(s):
        if c == ">" and d == 0 and not (i and s[i - 1] in "-="):
            return s[1:i], s[i + 1:]
    die("unbalanced `<` in `%s`" % s[:200])


def header_end(src, start):
    """index of the `{` or `;` that ends an item header starting at `start`"""
    depth = 0
    i = start
    while i < len(src):
        c = src[i]
        if c == ">" and src[i - 1] in "-=":
            pass
        elif c in "<([":
            depth += 1
        elif c in ">)]":
            depth -= 1
        elif c in "{;" and depth == 0:
            return i
        elif c in "{}":
            die("brace inside an item header (const generic expression?) near `%s`" % src[start:start + 120].strip())
        i += 1
    die("item header without body near `%s`" % src[start:start + 120].strip())


def body_end(src, open_idx):
    depth = 0
    for j in range(open_idx, len(src)):
        if src[j] == "{":
            depth += 1
        elif src[j] == "}":
            depth -= 1
            if depth == 0:
                return j
    die("unbalanced braces")


def assoc_type_decls(body):
    """`type X ... ;` declarations directly inside a trait body (nested blocks are skipped)"""
    flat, depth = [], 0
    for c in body:
        if c == "{":
            depth += 1
            if depth > 1:
                continue
        elif c == "}":
            depth -= 1
            if depth >= 1:
                flat.append(";")   # a nested block ends a declaration
                continue
        if depth <= 1:
            flat.append(c)
    flat = "".join(flat)
    return [m.group(1).strip() for m in re.finditer(r"(?:^|(?<=[;{}\]]))\s*type\s+([^;]*);", flat)]


def norm(s):
    return re.sub(r"\s+", " ", s).strip()


# --------------------------------------------------------------------------------------------------------------
# bounds

# traits of std/core that are known to have neither Send nor Sync among their supertraits
STD_NEUTRAL = {
    "Clone", "Copy", "From", "Into", "Add", "Sub", "Mul", "Div", "Rem", "Ord", "PartialOrd", "Eq", "PartialEq",
    "Iterator", "ExactSizeIterator", "DoubleEndedIterator", "IntoIterator", "FusedIterator", "Sized", "Debug",
    "Display", "Default", "Hash", "Fn", "FnMut", "FnOnce", "AsRef", "AsMut", "Deref", "DerefMut", "Drop",
    "Unpin", "Borrow", "ToOwned", "TryFrom", "TryInto",
}

ROLES = ["t", "iter", "inner", "idx"]

# role of the i-th TYPE argument (lifetimes and const arguments not counted) of a self type
TYPE_ROLES = {
    "TakenSlice": ["t"],
    "ConIterOfRange": ["idx"],
    "ConIterOfArray": ["t"],
    "ConIterOfVec": ["t"],
    "ConIterOfSlice": ["t"],
    "ConIterOfIter": ["t", "iter"],
    "Cloned": ["t", "inner"],
    "Copied": ["t", "inner"],
    # std collections the constructors are implemented for
    "Vec": ["t"],
    "Array": ["t"],
    "Slice": ["t"],
    "Range": ["idx"],
}
# role of the i-th TYPE argument of a trait being implemented
TRAIT_ARG_ROLES = {
    "IntoCloned": ["t", "inner"],
    "IntoCopied": ["t", "inner"],
}
# role of Self when the self type of the impl is a bare type parameter (blanket impl)
BLANKET_SELF_ROLE = {
    "IterIntoConcurrentIter": "iter",
    "IntoCloned": "inner",
    "IntoCopied": "inner",
}
# fall-back for a type this table does not know: role by the name of the parameter in the struct definition
NAME_ROLES = {"T": "t", "Iter": "iter", "I": "iter", "A": "inner", "C": "inner", "Idx": "idx"}

CTOR_TRAITS = ["IntoConcurrentIter", "ConcurrentIterable", "IterIntoConcurrentIter", "IntoCloned", "IntoCopied"]


def path_last(p):
    """`a::b::Name<args>` -> (Name, [args])"""
    p = p.strip()
    m = re.match(r"^((?:\w+\s*::\s*)*)(\w+)\s*(<.*>)?$", p, re.S)
    if not m:
        die("cannot parse path `%s`" % norm(p))
    args = []
    if m.group(3):
        inside, rest = take_angle(m.group(3))
        if rest.strip():
            die("cannot parse path `%s`" % norm(p))
        args = split_top(inside, ",")
    return m.group(2), [a for a in args if a]


class Crate:
    def __init__(self):
        self.traits = {}    # name -> dict(params=[(kind,name,bounds)], supers=[bound], where=[(lhs,[bound])], assoc={name:[bound]}, file)
        self.impls = []     # dict(unsafe, generics, trait, self, where, file, line, header)
        self.structs = {}   # name -> [type parameter names]


def parse_generics(g):
    """`'a, const N: usize, T: Send + Sync, Iter` -> [(kind, name, [bounds])]"""
    res = []
    for p in split_top(g, ","):
        if not p:
            continue
        if p.startswith("'"):
            res.append(("lifetime", p.split(":")[0].strip(), []))
        elif re.match(r"const\s", p):
            m = re.match(r"const\s+(\w+)\s*:", p)
            if not m:
                die("cannot parse const parameter `%s`" % p)
            res.append(("const", m.group(1), []))
        else:
            p = split_top(p, "=")[0]  # default
            if ":" in p:
                k = p.index(":")
                name, bounds = p[:k].strip(), split_top(p[k + 1:], "+")
            else:
                name, bounds = p.strip(), []
            if not re.match(r"^\w+$", name):
                die("cannot parse generic parameter `%s`" % p)
            res.append(("type", name, [b for b in bounds if b]))
    return res


def parse_where(w):
    res = []
    for pred in split_top(w, ","):
        if not pred:
            continue
        k = None
        for i, c, d in scan_depth(pred):
            if c == ":" and d == 0 and pred[i:i + 2] != "::" and (i == 0 or pred[i - 1] != ":"):
                k = i
                break
        if k is None:
            die("cannot parse where-predicate `%s`" % norm(pred))
        res.append((norm(pred[:k]), [b for b in split_top(pred[k + 1:], "+") if b]))
    return res


def parse_items(crate, src, path):
    # ---- traits
    for m in re.finditer(r"\btrait\s+(\w+)", src):
        prev = src[:m.start()].rstrip()
        if prev.endswith("impl") or prev.endswith("dyn"):
            continue
        e = header_end(src, m.end())
        if src[e] != "{":
            die("%s: trait %s without a body (trait alias?)" % (path, m.group(1)))
        head = src[m.end():e].strip()
        name = m.group(1)
        params, supers, where = [], [], []
        if head.startswith("<"):
            inside, head = take_angle(head)
            params = parse_generics(inside)
        head = head.strip()
        k = find_top_word(head, "where")
        if k >= 0:
            where = parse_where(head[k + 5:])
            head = head[:k].strip()
        if head.startswith(":"):
            supers = [b for b in split_top(head[1:], "+") if b]
        elif head:
            die("%s: cannot parse the header of trait %s: `%s`" % (path, name, norm(head)))
        body = src[e:body_end(src, e) + 1]
        assoc = {}
        for decl in assoc_type_decls(body):
            am = re.match(r"^(\w+)\s*(.*)$", decl, re.S)
            if not am:
                die("%s: cannot parse an associated type of trait %s: `%s`" % (path, name, norm(decl)))
            rest = am.group(2).strip()
            if rest.startswith("<"):
                _, rest = take_angle(rest)
                rest = rest.strip()
            k = find_top_word(rest, "where")
            if k >= 0:
                rest = rest[:k].strip()
            if len(split_top(rest, "=")) != 1:
                die("%s: associated type %s::%s with a default is not understood" % (path, name, am.group(1)))
            if rest.startswith(":"):
                assoc[am.group(1)] = [b for b in split_top(rest[1:], "+") if b]
            elif rest == "":
                assoc[am.group(1)] = []
            else:
                die("%s: cannot parse associated type %s::%s: `%s`" % (path, name, am.group(1), norm(rest)))
        if name in crate.traits:
            die("trait %s defined twice (%s and %s)" % (name, crate.traits[name]["file"], path))
        crate.traits[name] = dict(params=params, supers=supers, where=where, assoc=assoc, file=path)
    # ---- structs (only for the name-based fall-back of roles)
    for m in re.finditer(r"\bstruct\s+(\w+)\s*(<)?", src):
        names = []
        if m.group(2):
            inside, _ = take_angle(src[m.end() - 1:m.end() - 1 + 4000])
            names = [n for k, n, b in parse_generics(inside) if k == "type"]
        crate.structs.setdefault(m.group(1), names)
    # ---- impls
    for m in re.finditer(r"\bimpl\b", src):
        prev = src[:m.start()].rstrip()
        pm = re.search(r"(\w+)$", prev)
        prev_word = pm.group(1) if pm else ""
        is_unsafe = prev_word == "unsafe"
        if not (is_unsafe or prev_word == "default" or prev == "" or prev[-1] in "};]{"):
            continue  # `impl Trait` in type position
        e = header_end(src, m.end())
        head = src[m.end():e].strip()
        line = src.count("\n", 0, m.start()) + 1
        generics = []
        if head.startswith("<"):
            inside, head = take_angle(head)
            generics = parse_generics(inside)
        where = []
        k = find_top_word(head, "where")
        if k >= 0:
            where = parse_where(head[k + 5:])
            head = head[:k]
        k = find_top_word(head, "for")
        if k < 0:
            if is_unsafe:
                die("%s:%d: unsafe inherent impl?: `%s`" % (path, line, norm(head)))
            continue  # inherent impl
        trait, selfty = head[:k].strip(), head[k + 3:].strip()
        if trait.startswith("!"):
            die("%s:%d: negative impl `%s` is not understood" % (path, line, norm(head)))
        crate.impls.append(dict(unsafe=is_unsafe, generics=generics, trait=trait, selfty=selfty, where=where,
                                file=path, line=line,
                                header=norm(("unsafe impl" if is_unsafe else "impl") + src[m.end():e])))


def classify_self(selfty, generics, where_):
    """-> (name, [type args])  name is the struct name, or Vec/Array/Slice/Range, or None for a bare parameter"""
    s = selfty.strip()
    type_params = [n for k, n, b in generics if k == "type"]
    m = re.match(r"^&\s*('\w+\s*)?(mut\s+)?\[(.*)\]$", s, re.S)
    if m:
        if ";" in m.group(3):
            die("reference to an array as self type is not understood: `%s`" % s)
        return "Slice", [m.group(3).strip()]
    m = re.match(r"^\[(.*)\]$", s, re.S)
    if m:
        parts = split_top(m.group(1), ";")
        if len(parts) == 2:
            return "Array", [parts[0]]
        die("unsized slice as self type is not understood: `%s`" % s)
    if s in type_params:
        return None, []
    if s.startswith("&") or s.startswith("(") or s.startswith("*") or s.startswith("dyn "):
        die("self type `%s` is not understood" % s)
    name, args = path_last(s)
    return name, args


class Translator:
    def __init__(self, crate):
        self.crate = crate

    def facts_of_bound(self, b, seen=()):
        """a single bound -> subset of {'send','sync'} that it entails for the bounded type"""
        b = b.strip()
        if not b or b.startswith("'") or b.startswith("?"):
            return set()
        if b.startswith("for<") or b.startswith("for <"):
            b = take_angle(b[3:].strip())[1].strip()
        if b.startswith("~const") or b.startswith("("):
            die("bound `%s` is not understood" % b)
        if re.match(r"^(Fn|FnMut|FnOnce)\s*\(", b):
            return set()
        name, _args = path_last(b)
        if name == "Send":
            return {"send"}
        if name == "Sync":
            return {"sync"}
        if name in self.crate.traits:
            if name in seen:
                return set()
            t = self.crate.traits[name]
            res = set()
            for sb in t["supers"]:
                res |= self.facts_of_bound(sb, seen + (name,))
            for lhs, bs in t["where"]:
                if lhs == "Self":
                    for sb in bs:
                        res |= self.facts_of_bound(sb, seen + (name,))
            return res
        if name in STD_NEUTRAL:
            return set()
        die("bound on the unknown trait `%s` (neither a trait of the crate nor in the list of std traits known "
            "not to imply Send/Sync)" % name)

    def facts(self, bounds):
        res = set()
        for b in bounds:
            res |= self.facts_of_bound(b)
        return res

    def item_binding(self, bounds):
        """`Iterator<Item = P>` among the bounds -> P"""
        for b in bounds:
            try:
                name, args = path_last(b)
            except Fail:
                continue
            if name in ("Iterator", "ExactSizeIterator", "IntoIterator"):
                for a in args:
                    mm = re.match(r"^Item\s*=\s*(\w+)$", a)
                    if mm:
                        return mm.group(1)
        return None

    def translate_impl(self, im):
        """-> (self name, trait name, conjuncts [(role, 'send'|'sync')], notes)"""
        where_ = "%s:%d `%s`" % (im["file"], im["line"], im["header"])
        try:
            tname, targs = path_last(im["trait"])
            sname, sargs = classify_self(im["selfty"], im["generics"], where_)
            type_params = [n for k, n, b in im["generics"] if k == "type"]
            const_params = [n for k, n, b in im["generics"] if k == "const"]
            role = {}

            def assign(param, r):
                if param in role and role[param] != r:
                    die("type parameter %s plays two roles (%s and %s)" % (param, role[param], r))
                if r in role.values() and param not in role:
                    die("two type parameters play the role %s" % r)
                role[param] = r

            def assign_args(args, table, what):
                targs_ = [a for a in args if not a.startswith("'") and a not in const_params
                          and not re.match(r"^\d+$|^\{", a)]
                if len(targs_) != len(table):
                    die("%s has %d type arguments, the role table expects %d" % (what, len(targs_), len(table)))
                for a, r in zip(targs_, table):
                    if a in type_params:
                        assign(a, r)
                    elif re.match(r"^&\s*('\w+\s+)?\w+$", a) and re.sub(r"^&\s*('\w+\s+)?", "", a) in type_params:
                        assign(re.sub(r"^&\s*('\w+\s+)?", "", a), r)
                    else:
                        die("argument `%s` of %s is not a type parameter of the impl" % (a, what))

            if sname is None:
                if tname not in BLANKET_SELF_ROLE:
                    die("blanket impl of %s: the role of Self is unknown" % tname)
                assign(im["selfty"].strip(), BLANKET_SELF_ROLE[tname])
            elif sname in TYPE_ROLES:
                assign_args(sargs, TYPE_ROLES[sname], "self type " + sname)
            else:
                names = self.crate.structs.get(sname)
                if names is None:
                    die("self type %s is neither in the role table nor a struct of the crate" % sname)
                table = []
                for nme in names:
                    if nme not in NAME_ROLES:
                        die("self type %s: no role known for its type parameter %s" % (sname, nme))
                    table.append(NAME_ROLES[nme])
                assign_args(sargs, table, "self type " + sname)
            if tname in TRAIT_ARG_ROLES:
                assign_args(targs, TRAIT_ARG_ROLES[tname], "trait " + tname)

            # all predicates: parameter list and where-clause
            preds = [(n, b) for k, n, b in im["generics"] if k == "type" and b] + list(im["where"])
            # element type bound through `Iter: Iterator<Item = T>`
            for lhs, bs in preds:
                if role.get(lhs) == "iter":
                    p = self.item_binding(bs)
                    if p and p in type_params and p not in role:
                        assign(p, "t")
            conj, notes = [], []
            for lhs, bs in preds:
                fs = self.facts(bs)
                if lhs in type_params:
                    if not fs:
                        continue
                    if lhs not in role:
                        die("Send/Sync bound on type parameter %s, which has no role" % lhs)
                    for x in sorted(fs):
                        if (role[lhs], x) not in conj:
                            conj.append((role[lhs], x))
                elif lhs.startswith("'"):
                    continue
                else:
                    if fs:
                        die("Send/Sync bound on `%s`, which is not a plain type parameter" % lhs)
                    notes.append("predicate on `%s` says nothing about Send/Sync: ignored" % lhs)
            order = {(r, x): i for i, (r, x) in enumerate((r, x) for r in ROLES for x in ("send", "sync"))}
            conj.sort(key=lambda c: order[c])
            return (sname if sname is not None else "Blanket"), tname, conj, notes
        except Fail as e:
            die("%s: %s" % (where_, e))


def cmt(s):
    """text that is safe inside a Coq comment"""
    return s.replace("(*", "( *").replace("*)", "* )").replace('"', "'")


def coq_conj(conj):
    if not conj:
        return "true"
    return " && ".join("%s_%s f" % c for c in conj)


def coq_bool(b):
    return "true" if b else "false"


def generate(repo):
    crate = Crate()
    srcdir = os.path.join(repo, "src")
    if not os.path.isdir(srcdir):
        die("%s is not a directory" % srcdir)
    files = []
    for root, dirs, fs in os.walk(srcdir):
        dirs.sort()
        for f in sorted(fs):
            if f.endswith(".rs"):
                files.append(os.path.join(root, f))
    if not files:
        die("no .rs files under %s" % srcdir)
    raw_count = 0
    for p in files:
        rel = os.path.relpath(p, repo)
        txt = open(p, encoding="utf-8").read()
        clean = strip_comments_and_strings(txt, rel)
        raw_count += len(re.findall(r"\bunsafe\s+impl\b", clean))
        parse_items(crate, clean, rel)
    tr = Translator(crate)
    unsafe_impls = [im for im in crate.impls if im["unsafe"]]
    if len(unsafe_impls) != raw_count:
        die("found %d `unsafe impl` tokens but parsed %d unsafe impl items" % (raw_count, len(unsafe_impls)))

    L = []
    L.append("(** generated by tools/extract_bounds.py from the .rs files under src/ of the crate on every run -- do not edit.")
    L.append("    The thread-safety bounds the crate DECLARES (property C14); what is REQUIRED is in proofs/BoundsOk.v. *)")
    L.append("From Coq Require Import Bool List String.")
    L.append("Import ListNotations.")
    L.append("Open Scope string_scope.")
    L.append("Open Scope bool_scope.")
    L.append("")
    L.append("(** what is known about the types an impl is instantiated with: one Send and one Sync flag per role")
    L.append("    (t: the element type; iter: the wrapped sequential iterator; inner: the inner concurrent iterator of an")
    L.append("    adaptor; idx: the index type of a range) *)")
    L.append("Record flags : Set := mk_flags {")
    fl = ["%s_%s : bool" % (r, x) for r in ROLES for x in ("send", "sync")]
    L.append("  " + ";\n  ".join(fl))
    L.append("}.")
    L.append("")

    # ---- traits
    L.append("(** * traits of the crate: Send/Sync among the supertraits, bounds of associated types and of parameters *)")
    for name in sorted(crate.traits):
        t = crate.traits[name]
        L.append("(** %s: trait %s *)" % (t["file"], name))
        fs = tr.facts_of_bound(name)
        for x in ("send", "sync"):
            L.append("Definition super_%s_%s : bool := %s." % (name, x, coq_bool(x in fs)))
        for an in sorted(t["assoc"]):
            try:
                afs = tr.facts(t["assoc"][an])
            except Fail as e:
                die("%s: associated type %s::%s: %s" % (t["file"], name, an, e))
            for x in ("send", "sync"):
                L.append("Definition assoc_%s_%s_%s : bool := %s." % (name, an, x, coq_bool(x in afs)))
        for k, pn, bs in t["params"]:
            if k != "type":
                continue
            try:
                pfs = tr.facts(bs)
                for lhs, wbs in t["where"]:
                    if lhs == pn:
                        pfs |= tr.facts(wbs)
            except Fail as e:
                die("%s: parameter %s of trait %s: %s" % (t["file"], pn, name, e))
            for x in ("send", "sync"):
                L.append("Definition param_%s_%s_%s : bool := %s." % (name, pn, x, coq_bool(x in pfs)))
    L.append("Definition all_traits : list string := [%s]." % "; ".join('"%s"' % n for n in sorted(crate.traits)))
    L.append("")

    # ---- unsafe impls
    L.append("(** * unsafe impls *)")
    seen = {}
    pairs = []
    for im in sorted(unsafe_impls, key=lambda im: (im["file"], im["line"])):
        sname, tname, conj, notes = tr.translate_impl(im)
        key = (sname, tname)
        if key in seen:
            die("%s:%d: second `unsafe impl %s for %s` (first: %s)" % (im["file"], im["line"], tname, sname, seen[key]))
        seen[key] = "%s:%d" % (im["file"], im["line"])
        pairs.append(key)
        L.append("(** %s: %s *)" % (im["file"], cmt(im["header"])))
        for nt in notes:
            L.append("(** note: %s *)" % cmt(nt))
        if tname in ("Send", "Sync"):
            L.append("Definition declared_%s_%s (f : flags) : bool := %s." % (sname, tname.lower(), coq_conj(conj)))
        else:
            L.append("(** an unsafe impl of a trait other than Send/Sync: listed in all_impls only *)")
    pairs.sort()
    L.append("")
    L.append("(** every unsafe impl of the crate, sorted; proofs/BoundsOk.v proves that this is the list it knows *)")
    L.append("Definition all_impls : list (string * string) :=\n  [%s]." % ";\n   ".join('("%s", "%s")' % p for p in pairs))
    L.append("")

    # ---- constructors / adaptors and ConcurrentIter impls
    for title, traits, prefix, listname in (
            ("constructor and adaptor traits", CTOR_TRAITS, "ctor", "all_ctors"),
            ("impls of ConcurrentIter", ["ConcurrentIter"], "impl", "all_con_iters")):
        L.append("(** * %s *)" % title)
        got = []
        seen2 = {}
        for im in sorted(crate.impls, key=lambda im: (im["file"], im["line"])):
            if im["unsafe"]:
                continue
            try:
                tname, _ = path_last(im["trait"])
            except Fail:
                continue  # e.g. `impl<F: Fn(..)> ..`: not one of the traits looked for
            if tname not in traits:
                continue
            sname, tname, conj, notes = tr.translate_impl(im)
            key = (tname, sname)
            if key in seen2:
                die("%s:%d: second impl of %s for %s (first: %s)" % (im["file"], im["line"], tname, sname, seen2[key]))
            seen2[key] = "%s:%d" % (im["file"], im["line"])
            got.append(key)
            L.append("(** %s: %s *)" % (im["file"], cmt(im["header"])))
            for nt in notes:
                L.append("(** note: %s *)" % cmt(nt))
            L.append("Definition %s_%s_%s (f : flags) : bool := %s." % (prefix, tname, sname, coq_conj(conj)))
        for t in traits:
            if t not in crate.traits:
                die("trait %s not found in the crate" % t)
        got.sort()
        L.append("Definition %s : list (string * string) :=\n  [%s]." % (listname, ";\n   ".join('("%s", "%s")' % p for p in got)))
        L.append("")
    return "\n".join(L)


def main():
    if len(sys.argv) != 3:
        print("usage: extract_bounds.py <repo> <gen-dir>")
        return 2
    repo, gen = sys.argv[1], sys.argv[2]
    try:
        text = generate(repo)
    except Fail as e:
        print("extract_bounds: " + str(e))
        return 1
    os.makedirs(gen, exist_ok=True)
    dst = os.path.join(gen, "Bounds.v")
    old = open(dst).read() if os.path.exists(dst) else None
    if old != text:
        tmp = dst + ".tmp%d" % os.getpid()
        with open(tmp, "w") as f:
            f.write(text)
        os.replace(tmp, dst)
        print("extract_bounds: wrote " + dst)
    else:
        print("extract_bounds: " + dst + " unchanged")
    return 0


if __name__ == "__main__":
    sys.exit(main())
