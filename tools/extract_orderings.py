#!/usr/bin/env python3
"""tools/extract_orderings.py <repo> <gen-dir>: translates the memory orderings the crate passes to its atomic
operations into coq/gen/Orderings.v.  Fails closed: any site it cannot find exactly once is an error."""
import sys, re, os


def die(msg):
    print("extract_orderings: " + msg)
    sys.exit(1)


def fn_body(src, name):
    m = re.search(r"fn\s+%s\s*(?:<[^>]*>)?\s*\(" % re.escape(name), src)
    if not m:
        die("function %s not found" % name)
    i = src.index("{", m.end())
    depth = 0
    for j in range(i, len(src)):
        if src[j] == "{":
            depth += 1
        elif src[j] == "}":
            depth -= 1
            if depth == 0:
                return src[i:j + 1]
    die("function %s: unbalanced braces" % name)


def fn_body_opt(src, name):
    m = re.search(r"fn\s+%s\s*(?:<[^>]*>)?\s*\(" % re.escape(name), src)
    if not m:
        return None
    i = src.index("{", m.end())
    depth = 0
    for j in range(i, len(src)):
        if src[j] == "{":
            depth += 1
        elif src[j] == "}":
            depth -= 1
            if depth == 0:
                return src[i:j + 1]
    return None


def strip_comments(src):
    src = re.sub(r"/\*.*?\*/", "", src, flags=re.S)
    return re.sub(r"//[^\n]*", "", src)


def inlined(body, src, depth=3, seen=()):
    """the body with every call `self.helper(..)` of a method defined in the same file replaced by that method's body
    (a few levels deep): an atomic operation reached through a private helper is found where the model performs it"""
    if depth == 0:
        return body

    def repl(m):
        name = m.group(1)
        if name in seen:
            return m.group(0)
        b = fn_body_opt(src, name)
        if b is None:
            return m.group(0)
        return "{ " + inlined(b, src, depth - 1, seen + (name,)) + " } ("
    return re.sub(r"\bself\s*\.\s*(\w+)\s*\(", repl, body)


def one_ordering(body, what, where):
    found = re.findall(r"%s[^;]*?Ordering::(\w+)" % what, body, re.S)
    if len(found) != 1:
        die("%s: expected exactly one `%s(.. Ordering::X)`, found %d" % (where, what, len(found)))
    return found[0]


def orderings_in_order(body, what, where, n):
    found = re.findall(r"%s[^;]*?Ordering::(\w+)" % what, body, re.S)
    if len(found) != n:
        die("%s: expected exactly %d `%s(.. Ordering::X)`, found %d" % (where, n, what, len(found)))
    return found


def main():
    repo, gen = sys.argv[1], sys.argv[2]
    ac = open(os.path.join(repo, "src/iter/atomic_counter.rs")).read()
    it = strip_comments(open(os.path.join(repo, "src/iter/implementors/iter.rs")).read())
    ac = strip_comments(ac)
    plain_fn_body = fn_body

    def fn_body_it(src, name):
        b = plain_fn_body(src, name)
        return inlined(b, src, seen=(name,))
    tab = {}
    tab["counter_fetch_and_add"] = one_ordering(fn_body_it(ac, "fetch_and_add"), r"\.fetch_add\(", "AtomicCounter::fetch_and_add")
    tab["counter_fetch_and_increment"] = one_ordering(fn_body_it(ac, "fetch_and_increment"), r"\.fetch_add\(", "AtomicCounter::fetch_and_increment")
    tab["counter_current"] = one_ordering(fn_body_it(ac, "current"), r"\.load\(", "AtomicCounter::current")
    tab["counter_store"] = one_ordering(fn_body_it(ac, "store"), r"\.store\(", "AtomicCounter::store")
    tab["counter_clone"] = one_ordering(fn_body_it(ac, "clone"), r"\.load\(", "AtomicCounter::clone")
    # each waiting loop loads the flag twice: in every round, and once more when the ticket equals the yielded counter
    tab["completed_load_progress"], tab["completed_load_progress_turn"] = orderings_in_order(
        fn_body_it(it, "progress_and_get_begin_idx"), r"completed\s*\.load\(", "ConIterOfIter::progress_and_get_begin_idx", 2)
    g = fn_body_it(it, "get")
    tab["completed_load_get"], tab["completed_load_get_turn"] = orderings_in_order(g, r"completed\s*\.load\(", "ConIterOfIter::get", 2)
    tab["completed_store_get"] = one_ordering(g, r"completed\s*\.store\(", "ConIterOfIter::get")
    # the chunk pulls (fetch_n and the buffered pull) raise the flag through ConIterOfIter::complete
    tab["completed_store_complete"] = one_ordering(fn_body_it(it, "complete"), r"completed\s*\.store\(", "ConIterOfIter::complete")
    tab["completed_store_early_exit"] = one_ordering(fn_body_it(it, "early_exit"), r"completed\s*\.store\(", "ConIterOfIter::early_exit")
    tab["completed_load_try_get_len"] = one_ordering(fn_body_it(it, "try_get_len"), r"completed\s*\.load\(", "ConIterOfIter::try_get_len")
    m = re.search(r"impl\s+Drop\s+for\s+CompleteOnUnwind[^{]*\{", it)
    if not m:
        die("impl Drop for CompleteOnUnwind not found")
    tab["completed_store_unwind"] = one_ordering(fn_body(it[m.start():], "drop"), r"\.store\(", "CompleteOnUnwind::drop")
    # which method of AtomicCounter each use site of the two counters of ConIterOfIter calls
    uses = {
        "yielded_publish_single": (fn_body_it(it, "get"), r"yielded_counter\s*\.\s*(fetch_and_increment|fetch_and_add)\s*\("),
        "yielded_publish_chunk": (fn_body_it(it, "progress_yielded_counter"), r"yielded_counter\s*\.\s*(fetch_and_increment|fetch_and_add)\s*\("),
        "yielded_read_get": (fn_body_it(it, "get"), r"yielded_counter\s*\.\s*(current)\s*\("),
        "yielded_read_progress": (fn_body_it(it, "progress_and_get_begin_idx"), r"yielded_counter\s*\.\s*(current)\s*\("),
    }
    for k, (body, pat) in uses.items():
        f = re.findall(pat, body)
        if len(f) != 1:
            die("%s: expected exactly one matching call, found %d" % (k, len(f)))
        tab["use_" + k] = f[0]
    ok = {"Relaxed": "ORelaxed", "Acquire": "OAcquire", "Release": "ORelease", "AcqRel": "OAcqRel", "SeqCst": "OSeqCst"}
    lines = ["(** generated by tools/extract_orderings.py from /repo/src/iter/atomic_counter.rs and",
             "    /repo/src/iter/implementors/iter.rs on every run -- do not edit *)",
             "From OCI Require Import Ord.", ""]
    for k in sorted(tab):
        if k.startswith("use_"):
            continue
        if tab[k] not in ok:
            die("unknown ordering %s at %s" % (tab[k], k))
        lines.append("Definition ord_%s : ord := %s." % (k, ok[tab[k]]))
    meth = {"fetch_and_increment": "ord_counter_fetch_and_increment", "fetch_and_add": "ord_counter_fetch_and_add", "current": "ord_counter_current"}
    lines.append("")
    lines.append("(** the ordering at each use site of the yielded counter of ConIterOfIter *)")
    for k in sorted(tab):
        if k.startswith("use_"):
            lines.append("Definition ord_%s : ord := %s." % (k[4:], meth[tab[k]]))
    os.makedirs(gen, exist_ok=True)
    out = os.path.join(gen, "Orderings.v")
    txt = "\n".join(lines) + "\n"
    if not os.path.exists(out) or open(out).read() != txt:
        open(out, "w").write(txt)


if __name__ == "__main__":
    main()
