#!/usr/bin/env python3
"""tools/harmless_matrix.py [id ...]: evaluates the HARMLESS changes under harmless/<id>/patch.diff (changes of the crate
that keep every property: refactors, stronger orderings, comments, defensive assertions; each written by a sub-agent that
was given the property texts only and argued why nothing is affected).  Each change is applied to /repo, the quick
check of EVERY property is run, the change is undone.  A check that fires is an alarm on code where the property
holds; the brief allows it when a proof obligation or the correspondence breaks (the line then ends with
no-failing-input-found), but every such alarm is listed in harmless/SUMMARY.md so that the strictness of the tie is
visible.  An alarm WITH a failing input on a harmless change would be a defect of a check (or the change is not
harmless after all) and is investigated by hand."""
import sys, os, json, glob
sys.path.insert(0, os.path.dirname(os.path.abspath(__file__)))
from seed_matrix import sh, run_check, ROOT, ALL


def main():
    ids = sys.argv[1:] or sorted(os.path.basename(os.path.dirname(p)) for p in glob.glob(os.path.join(ROOT, "harmless", "*", "patch.diff")))
    st = sh("git -C /repo status --porcelain").stdout.decode().strip()
    if st:
        print("refusing: /repo is not clean:\n" + st)
        return 2
    for hid in ids:
        patch = os.path.join(ROOT, "harmless", hid, "patch.diff")
        r = sh("git -C /repo apply %s" % patch)
        if r.returncode != 0:
            print("%s: patch does not apply: %s" % (hid, r.stdout.decode()))
            continue
        res = {}
        try:
            for p in ALL:
                res[p] = run_check(p)
                if res[p]["verdict"] != "quiet":
                    print("%s %s %s %s" % (hid, p, res[p]["verdict"], res[p]["what"][:170]))
                    sys.stdout.flush()
        finally:
            sh("git -C /repo checkout -- .")
            sh("git -C /repo clean -fdq src")
        json.dump(res, open(os.path.join(ROOT, "harmless", hid, "eval.json"), "w"), indent=1)
        print("%s done: %d of %d checks quiet" % (hid, sum(1 for v in res.values() if v["verdict"] == "quiet"), len(res)))
        sys.stdout.flush()
    sh("for t in %s/tools/extract_*.py; do python3 $t /repo %s/coq/gen; done" % (ROOT, ROOT))
    rows = []
    for d in sorted(glob.glob(os.path.join(ROOT, "harmless", "*", "eval.json"))):
        hid = os.path.basename(os.path.dirname(d))
        ev = json.load(open(d))
        meta = {}
        try:
            meta = json.load(open(os.path.join(os.path.dirname(d), "meta.json")))
        except Exception:
            pass
        nf = ["%s" % p for p, v in sorted(ev.items()) if v["verdict"] == "no-failing-input-found"]
        fi = ["%s" % p for p, v in sorted(ev.items()) if v["verdict"] == "failing-input"]
        why = ""
        for p, v in sorted(ev.items()):
            if v["verdict"] != "quiet":
                why = (v.get("what") or "")[:140].replace("|", "/").replace("\n", " ")
                break
        rows.append("| %s | %s | %s | %s | %s |" % (hid, (meta.get("what") or "")[:120].replace("|", "/"), ", ".join(nf) or "-", ", ".join(fi) or "-", why or "-"))
    open(os.path.join(ROOT, "harmless", "SUMMARY.md"), "w").write(
        "# Harmless changes and the checks that fire on them\n\n(written by tools/harmless_matrix.py; quick tier of all 19 checks on each change)\n\n"
        "| change | what | alarms without a failing input | alarms WITH a failing input | first reason |\n|---|---|---|---|---|\n" + "\n".join(rows) + "\n")
    return 0


if __name__ == "__main__":
    sys.exit(main())
