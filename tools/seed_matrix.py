#!/usr/bin/env python3
"""tools/seed_matrix.py [seed-id ...]: evaluates seeded changes (all of seeded/*/patch.diff by default): each change is
applied to /repo, the quick check of its own property is run; when that check stays quiet, the quick checks of all
other properties are run as well; the change is undone.  Writes seeded/<id>/eval.json and seeded/SUMMARY.md."""
import sys, os, subprocess, json, re, glob
ROOT = os.path.dirname(os.path.dirname(os.path.abspath(__file__)))
ALL = ["C%02d" % i for i in range(1, 20)]


def sh(cmd, **kw):
    return subprocess.run(cmd, shell=True, stdout=subprocess.PIPE, stderr=subprocess.STDOUT, **kw)


def run_check(p):
    r = sh("cd %s && ./check %s --tier quick" % (ROOT, p), timeout=3600)
    txt = r.stdout.decode()
    viol = [l for l in txt.splitlines() if l.startswith("VIOLATION")]
    what = ""
    m = re.search(r"replay=(\S+)", " ".join(viol))
    if m and os.path.exists(m.group(1)):
        try:
            rec = json.load(open(m.group(1)))
            what = (rec.get("what") or "")[:200]
            if rec.get("proof_obligations_that_do_not_check"):
                what += " | proof: " + rec["proof_obligations_that_do_not_check"][0].splitlines()[0][:120]
            if rec.get("first_divergence"):
                what += " | first divergence: " + rec["first_divergence"]["what"][:160]
        except Exception as ex:
            what = "?" + str(ex)
    verdict = "quiet" if r.returncode == 0 else ("no-failing-input-found" if viol and viol[0].endswith("no-failing-input-found") else "failing-input")
    return dict(exit=r.returncode, verdict=verdict, what=what)


def main():
    ids = sys.argv[1:] or sorted(os.path.basename(os.path.dirname(p)) for p in glob.glob(os.path.join(ROOT, "seeded", "*", "patch.diff")))
    st = sh("git -C /repo status --porcelain").stdout.decode().strip()
    if st:
        print("refusing: /repo is not clean:\n" + st)
        return 2
    for sid in ids:
        patch = os.path.join(ROOT, "seeded", sid, "patch.diff")
        own = sid.split("-")[0]
        r = sh("git -C /repo apply %s" % patch)
        if r.returncode != 0:
            print("%s: patch does not apply: %s" % (sid, r.stdout.decode()))
            continue
        res = {}
        try:
            res[own] = run_check(own)
            print("%s %s %s %s" % (sid, own, res[own]["verdict"], res[own]["what"][:150]))
            sys.stdout.flush()
            if res[own]["verdict"] != "failing-input" and not os.environ.get("SEED_OWN_ONLY"):
                for p in ALL:
                    if p == own:
                        continue
                    res[p] = run_check(p)
                    if res[p]["verdict"] != "quiet":
                        print("   %s %s %s %s" % (sid, p, res[p]["verdict"], res[p]["what"][:150]))
                        sys.stdout.flush()
        finally:
            sh("git -C /repo checkout -- .")
            sh("git -C /repo clean -fdq src")
        json.dump(res, open(os.path.join(ROOT, "seeded", sid, "eval.json"), "w"), indent=1)
    sh("for t in %s/tools/extract_*.py; do python3 $t /repo %s/coq/gen; done" % (ROOT, ROOT))
    # summary over everything that has an eval.json
    rows = []
    for d in sorted(glob.glob(os.path.join(ROOT, "seeded", "*", "eval.json"))):
        sid = os.path.basename(os.path.dirname(d))
        own = sid.split("-")[0]
        ev = json.load(open(d))
        meta = {}
        try:
            meta = json.load(open(os.path.join(os.path.dirname(d), "meta.json")))
        except Exception:
            pass
        o = ev.get(own, {})
        others = ["%s (%s)" % (p, v.get("verdict", "failing-input" if v.get("exit") else "quiet")) for p, v in sorted(ev.items())
                  if p != own and (v.get("verdict", "quiet" if not v.get("exit") else "x") != "quiet")]
        rows.append("| %s | %s | %s | %s | %s |" % (sid, (meta.get("needs_to_manifest") or "")[:110].replace("|", "/"),
                                                 o.get("verdict", "failing-input" if o.get("exit") else "quiet"),
                                                 (o.get("what") or "")[:120].replace("|", "/").replace("\n", " "), ", ".join(others) or "-"))
    open(os.path.join(ROOT, "seeded", "SUMMARY.md"), "w").write(
        "# Seeded changes and the checks that catch them\n\n(written by tools/seed_matrix.py; verdict of the change's own property check in the quick tier, "
        "and every other property check that fires when the own check stays quiet or finds no failing input)\n\n"
        "| change | what it needs to manifest | own check | what the own check reports | other checks that fire |\n|---|---|---|---|---|\n" + "\n".join(rows) + "\n")
    return 0


if __name__ == "__main__":
    sys.exit(main())
