"""Orchestration of the checks (see ./check and DESIGN.md section 2.4)."""
import os, sys, json, time, subprocess, re, fcntl, hashlib, shutil, glob

ROOT = os.path.dirname(os.path.dirname(os.path.abspath(__file__)))
BUILD = os.path.join(ROOT, "build")
COQ = os.path.join(ROOT, "coq")
HARNESS = os.path.join(ROOT, "harness")
DRV = os.path.join(ROOT, "ocaml", "build", "drv")
REPO = "/repo"
CFG = "orx_concurrent_iter_verif"

import gen_cases  # noqa: E402

FORBIDDEN = r"\b(Admitted|admit|Axiom|Axioms|Parameter|Parameters|Conjecture|Conjectures|Hypothesis|Variable|Unset\s+Guard|bypass_check|Guard\s+Checking|Positivity\s+Checking|Universe\s+Checking|type-in-type|impredicative-set|Admit\s+Obligations|native_compute)\b"
# axioms of the standard library that a theorem may depend on (none is needed at present)
AXIOM_ALLOW = set()


def sh(cmd, cwd=None, timeout=None, env=None, input=None):
    e = dict(os.environ)
    e["CARGO_NET_OFFLINE"] = "true"
    if env:
        e.update(env)
    try:
        p = subprocess.run(cmd, cwd=cwd, shell=isinstance(cmd, str), stdout=subprocess.PIPE, stderr=subprocess.STDOUT,
                           timeout=timeout, env=e, input=input)
        return p.returncode, p.stdout.decode("utf-8", "replace")
    except subprocess.TimeoutExpired as ex:
        out = ex.stdout.decode("utf-8", "replace") if ex.stdout else ""
        return 124, out + "\n[timeout]"


class Lock:
    def __init__(self, name):
        os.makedirs(os.path.join(BUILD, "locks"), exist_ok=True)
        self.path = os.path.join(BUILD, "locks", name)

    def __enter__(self):
        self.f = open(self.path, "w")
        fcntl.flock(self.f, fcntl.LOCK_EX)
        return self

    def __exit__(self, *a):
        fcntl.flock(self.f, fcntl.LOCK_UN)
        self.f.close()


# ------------------------------------------------------------------ builds

TRANSLATOR_FOR = {"extract_orderings.py": ("C07",), "extract_bounds.py": ("C14",), "extract_surface.py": ("C14",), "extract_adaptors.py": ("C13",)}


def regenerate_gen(prop=None):
    """translators: source -> coq/gen/*.v (fail closed).  Every translator runs before every build; a translator that
    fails is a broken obligation of the properties whose theorems are stated over its output (the orderings: C07; the
    bounds and the surface: C14) -- for the others the generated file of the last successful run stays in place"""
    msgs = []
    for path in sorted(glob.glob(os.path.join(ROOT, "tools", "extract_*.py"))):
        tool = os.path.basename(path)
        rc, out = sh([sys.executable, path, REPO, os.path.join(COQ, "gen")], timeout=120)
        if rc != 0 and (prop is None or prop in TRANSLATOR_FOR.get(tool, (prop,))):
            msgs.append("%s failed: %s" % (tool, out.strip()[-2000:]))
    return msgs


def build_coq(prop=None):
    """full .vo build in two stages: (1) the model, the checkers and their extraction (theories/, extract/) and the
    OCaml driver -- needed to run anything; (2) the proofs the property's theorems depend on (make props/Cxx.vo; all
    of the development when no property is given).  Returns (model_ok, proofs_ok, log, translator messages)."""
    with Lock("coq"):
        msgs = regenerate_gen(prop)
        rc, out = sh("coq_makefile -f _CoqProject -o Makefile", cwd=COQ, timeout=120)
        if rc != 0:
            return False, False, out, msgs
        rc, out = sh("make -j16 extract/Extract.vo", cwd=COQ, timeout=2400)
        log = out
        model_ok = rc == 0
        if model_ok:
            rc2, out2 = sh(os.path.join(ROOT, "ocaml", "build.sh"), timeout=300)
            if rc2 != 0:
                model_ok = False
                log += "\n[ocaml build failed]\n" + out2
        proofs_ok = False
        if model_ok:
            target = "props/%s.vo" % prop if prop and os.path.exists(os.path.join(COQ, "props", prop + ".v")) else ""
            rc, out = sh("make -j16 %s" % target, cwd=COQ, timeout=2400)
            log += "\n" + out
            proofs_ok = rc == 0
        os.makedirs(os.path.join(BUILD, "logs"), exist_ok=True)
        open(os.path.join(BUILD, "logs", "coq_build%s.log" % ("_" + prop if prop else "")), "w").write(log)
        return model_ok, proofs_ok, log, msgs


def strip_comments(txt):
    out = []
    depth = 0
    i = 0
    while i < len(txt):
        if txt.startswith("(*", i):
            depth += 1
            i += 2
        elif txt.startswith("*)", i) and depth > 0:
            depth -= 1
            i += 2
        else:
            if depth == 0:
                out.append(txt[i])
            i += 1
    return "".join(out)


FORBIDDEN_ANYWHERE = r"\b(Admitted|admit|give_up|Abort|Axiom|Axioms|Parameter|Parameters|Conjecture|Conjectures|Extract\s+Constant|Extract\s+Inlined|Declare\s+ML|exact_no_check|vm_cast_no_check|Unset\s+Guard|bypass_check|Guard\s+Checking|Positivity\s+Checking|Universe\s+Checking|type-in-type|impredicative-set|Admit\s+Obligations|native_compute)\b"
FORBIDDEN_OUTSIDE_SECTION = r"\b(Hypothesis|Hypotheses|Variable|Variables|Context)\b"


def grep_forbidden():
    """forbidden words anywhere; Variable / Hypothesis only outside a Section (inside one they are
    discharged when the section closes, and Print Assumptions shows nothing for them)"""
    hits = []
    for path in glob.glob(os.path.join(COQ, "**", "*.v"), recursive=True):
        txt = strip_comments(open(path).read())
        for m in re.finditer(FORBIDDEN_ANYWHERE, txt):
            hits.append("%s: %s" % (os.path.relpath(path, ROOT), m.group(0)))
        depth = 0
        for sentence in re.split(r"\.\s", txt):
            st = sentence.strip()
            if re.match(r"^Section\s+\w+$", st):
                depth += 1
            elif re.match(r"^End\s+\w+$", st):
                depth = max(0, depth - 1)
            elif depth == 0 and re.search(FORBIDDEN_OUTSIDE_SECTION, st):
                hits.append("%s: %s outside a section" % (os.path.relpath(path, ROOT), re.search(FORBIDDEN_OUTSIDE_SECTION, st).group(0)))
    return hits


def prop_obligations(prop):
    """compiles props/Cxx.v on its own, returns (theorems, discharged, problems, raw output)"""
    src = os.path.join(COQ, "props", prop + ".v")
    if not os.path.exists(src):
        return [], [], ["props/%s.v does not exist" % prop], ""
    txt = open(src).read()
    theorems = re.findall(r"^\s*Theorem\s+([A-Za-z0-9_']+)", txt, re.M)
    with Lock("coq"):
        rc, out = sh("coqc -q -Q theories OCI -Q gen OCI.gen -Q proofs OCI.proofs -Q props OCI.props -Q extract OCI.extract props/%s.v" % prop,
                     cwd=COQ, timeout=900)
    problems = []
    if rc != 0:
        problems.append("props/%s.v does not compile: %s" % (prop, out.strip()[-1500:]))
        return theorems, [], problems, out
    # Print Assumptions output: either "Closed under the global context" or "Axioms:" followed by names
    blocks = re.split(r"(?=Closed under the global context|Axioms:)", out)
    n_closed = out.count("Closed under the global context")
    axioms = []
    for m in re.finditer(r"Axioms:\s*\n((?:.+\n?)+?)(?=\n\S|\Z)", out):
        for line in m.group(1).splitlines():
            mm = re.match(r"^([A-Za-z0-9_.']+)\s*:", line)
            if mm:
                axioms.append(mm.group(1))
    bad = [a for a in axioms if a not in AXIOM_ALLOW]
    if bad:
        problems.append("theorems depend on axioms outside the allow-list: %s" % ", ".join(sorted(set(bad))))
    n_pa = len(re.findall(r"^\s*Print Assumptions\s+", txt, re.M))
    if n_pa < len(theorems):
        problems.append("props/%s.v: %d theorems but only %d Print Assumptions" % (prop, len(theorems), n_pa))
    discharged = theorems if not problems else []
    return theorems, discharged, problems, out


def repo_fingerprint():
    h = hashlib.sha256()
    for root, dirs, files in os.walk(os.path.join(REPO, "src")):
        dirs.sort()
        for f in sorted(files):
            p = os.path.join(root, f)
            h.update(p.encode())
            h.update(open(p, "rb").read())
    h.update(open(os.path.join(REPO, "Cargo.toml"), "rb").read())
    return h.hexdigest()[:16]


def build_harness(profile):
    """profile: 'release' (overflow checks and debug assertions off) or 'debug' (both on)"""
    with Lock("harness-" + profile):
        lockfile = os.path.join(HARNESS, "Cargo.lock")
        if not os.path.exists(lockfile):
            shutil.copy(os.path.join(REPO, "Cargo.lock"), lockfile)
        cmd = "cargo build --offline" + (" --release" if profile == "release" else "")
        rc, out = sh(cmd, cwd=HARNESS, timeout=1200, env={"RUSTFLAGS": "--cfg " + CFG})
        os.makedirs(os.path.join(BUILD, "logs"), exist_ok=True)
        open(os.path.join(BUILD, "logs", "harness_%s.log" % profile), "w").write(out)
        binp = os.path.join(HARNESS, "target", profile, "oci-harness")
        if rc != 0 or not os.path.exists(binp):
            return None, out
        # private copy, so that a concurrent rebuild cannot swap the binary under a running check
        os.makedirs(os.path.join(BUILD, "bin"), exist_ok=True)
        dst = os.path.join(BUILD, "bin", "oci-harness-%s-%d" % (profile, os.getpid()))
        shutil.copy(binp, dst)
        return dst, out


# ------------------------------------------------------------------ running

def parse_blocks(text):
    """case id -> list of lines (between 'case' and 'end')"""
    blocks = {}
    order = []
    cur = None
    for line in text.splitlines():
        if line.startswith("case "):
            cur = line.split()[1]
            blocks[cur] = []
            order.append(cur)
        elif line == "end":
            cur = None
        elif cur is not None:
            blocks[cur].append(line)
    return blocks, order


def run_model(cases_text):
    rc, out = sh([DRV, "run"], input=cases_text.encode(), timeout=600)
    if rc != 0:
        raise RuntimeError("model driver failed: " + out[-2000:])
    return out


def run_dfs(cases_text, limit):
    rc, out = sh([DRV, "dfs", str(limit)], input=cases_text.encode(), timeout=600)
    if rc != 0:
        raise RuntimeError("model driver (dfs) failed: " + out[-2000:])
    return out


def run_chk(cases_path, traces_text, props):
    rc, out = sh([DRV, "chk", cases_path, ",".join(str(p) for p in props)], input=traces_text.encode(), timeout=900)
    if rc != 0:
        raise RuntimeError("model driver (chk) failed: " + out[-2000:])
    res = {}
    flags = {}
    for line in out.splitlines():
        w = line.split()
        if not w:
            continue
        if w[0] == "chk" and len(w) >= 4 and w[2] != "-":
            res.setdefault(w[1], {})[w[2]] = (w[3] == "ok")
        elif w[0] == "chk" and len(w) >= 4:
            flags.setdefault(w[1], []).append("nocase")
        elif w[0] == "flag":
            flags.setdefault(w[1], []).append(" ".join(w[2:]))
    return res, flags


def run_impl(binp, cases, timeout_per_batch=60):
    """runs the cases on the crate, isolating a case whose process dies (abort, segfault, hang).
    returns (traces_text, dead) where dead maps case id -> reason.  Batches of 200 cases, one process each; more than
    two batches are spread over a few worker threads (the results are joined in the order of the cases)"""

    def run_batch(batch):
        text = "".join(gen_cases.fmt_case(c) for c in batch)
        try:
            p = subprocess.run([binp], input=text.encode(), stdout=subprocess.PIPE, stderr=subprocess.PIPE,
                               timeout=timeout_per_batch)
            return p.returncode, p.stdout.decode("utf-8", "replace"), p.stderr.decode("utf-8", "replace")
        except subprocess.TimeoutExpired as ex:
            return 124, (ex.stdout or b"").decode("utf-8", "replace"), "[timeout]"

    def go(batch, out_all, dead):
        """a batch whose process fails is not bisected: the harness prints every case as it finishes it, so the first case
        of the batch without a complete block is the one that died (abort, segfault, hang); it is recorded and the rest
        of the batch is run in a new process.  After a few dead cases the remainder is not run (the check fails anyway)"""
        n_dead = 0
        while batch:
            rc, out, err = run_batch(batch)
            if rc == 0:
                out_all.append(out)
                return
            complete = re.findall(r"^case (\S+)\n(?:(?!case ).*\n)*?end$", out, re.M)
            done = set(complete)
            k = 0
            while k < len(batch) and batch[k]["id"] in done:
                k += 1
            # keep the complete blocks of the cases before the culprit
            keep = []
            cur = None
            for line in out.splitlines():
                if line.startswith("case "):
                    cur = line.split()[1]
                    buf = [line]
                elif cur is not None:
                    buf.append(line)
                    if line == "end":
                        if cur in done and cur in {c["id"] for c in batch[:k]}:
                            keep.append("\n".join(buf) + "\n")
                        cur = None
            out_all.append("".join(keep))
            if k >= len(batch):
                return          # everything was printed; the process failed afterwards (exit code only)
            c = batch[k]
            reason = "timeout" if rc == 124 else ("signal %d" % (-rc) if rc < 0 else "exit %d" % rc)
            dead[c["id"]] = reason + ": " + err.strip().splitlines()[-1][:200] if err.strip() else reason
            out_all.append("case %s\nprocess-died %s\nend\n" % (c["id"], reason))
            n_dead += 1
            batch = batch[k + 1:]
            if n_dead >= 4:
                for c in batch:
                    dead[c["id"]] = "not run: four cases of its batch had already killed the harness"
                    out_all.append("case %s\nprocess-died not-run\nend\n" % c["id"])
                return

    def top(batch):
        o, d = [], {}
        go(batch, o, d)
        return "".join(o), d

    B = 200
    batches = [cases[i:i + B] for i in range(0, len(cases), B)]
    if len(batches) > 2:
        from concurrent.futures import ThreadPoolExecutor
        with ThreadPoolExecutor(max_workers=min(6, len(batches))) as ex:
            res = list(ex.map(top, batches))
    else:
        res = [top(b) for b in batches]
    dead = {}
    for _, d in res:
        dead.update(d)
    return "".join(t for t, _ in res), dead


def canon_drops(d):
    """sorted, maximally merged intervals"""
    if d == "-":
        return d
    iv = sorted((int(a), int(b)) for a, b in (x.split("/") for x in d.split(",")))
    out = []
    for lo, cnt in iv:
        if cnt == 0:
            continue
        if out and out[-1][0] + out[-1][1] == lo:
            out[-1][1] += cnt
        else:
            out.append([lo, cnt])
    return ",".join("%d/%d" % (a, b) for a, b in out) if out else "-"


def norm_line(l, keep_ord=False):
    # the ordering token of atomic labels is compared for C07 only (a strengthened ordering elsewhere is not an alarm)
    m = re.match(r"^(L \d+ atom \S+ \S+ \d+ \d+) \S+$", l)
    if m and not keep_ord:
        return m.group(1)
    m = re.match(r"^(E .* \| )(\S+)$", l)
    if m:
        return m.group(1) + canon_drops(m.group(2))
    return l


def first_diff(model_lines, impl_lines, keep_ord=False):
    m = [norm_line(l, keep_ord) for l in model_lines if not l.startswith(("sched ", "Z "))]
    i = [norm_line(l, keep_ord) for l in impl_lines if not l.startswith(("sched ", "Z "))]
    for k in range(max(len(m), len(i))):
        a = m[k] if k < len(m) else "<nothing>"
        b = i[k] if k < len(i) else "<nothing>"
        if a != b:
            return k, a, b
    return None


def sched_of(lines):
    for l in lines:
        if l.startswith("sched "):
            s = l.split()[1]
            return [] if s == "." else [int(x) for x in s.split(",")]
    return None


# ------------------------------------------------------------------ known findings

def load_known():
    p = os.path.join(ROOT, "known_findings.json")
    if not os.path.exists(p):
        return []
    return json.load(open(p)).get("findings", [])


def trace_classes(lines):
    """classes of a violation that can be read off its implementation trace"""
    cl = set()
    for l in lines or []:
        m = re.match(r"^L \d+ atom (\S+) add (\d+) (\d+)", l)
        if m and int(m.group(2)) + int(m.group(3)) >= (1 << 64):
            cl.add("reserved-counter-wrap" if m.group(1) == "C" else "yielded-counter-wrap")
    return cl


def known_match(prop, viol, known):
    """a violation matches a listed finding only if EVERY key of the finding's matcher is understood and accepts it
    (an unknown key never matches: a finding must not swallow violations it was not written for)"""
    for k in known:
        if k.get("status") != "open" or (k.get("property") != prop and prop not in k.get("also", [])):
            continue
        m = k.get("match", {})
        if not m:
            continue
        case = viol.get("case") or {}
        env = case.get("env", {})
        ok = True
        for key, val in m.items():
            if key == "kind":
                ok = ok and env.get("kind") == val
            elif key == "kinds":
                ok = ok and env.get("kind") in val
            elif key == "stream":
                ok = ok and viol.get("stream") == val
            elif key == "checker":
                ok = ok and viol.get("checker") == val
            elif key == "probe":
                ok = ok and viol.get("probe") == val
            elif key == "adds_at_most_len":
                # F16 is about CLAMPED reservations (fix a75268d): every fetch_add on the position counter adds at most the
                # length, so a wrap needs a huge length.  A trace in which some reservation exceeds the length is another defect
                adds = [int(m_.group(1)) for m_ in (re.match(r"^L \d+ atom C add (\d+) ", l) for l in (viol.get("impl_trace") or [])) if m_]
                ok = ok and bool(val) and all(a <= int(env.get("len", 0)) for a in adds)
            elif key == "no_add_inside_skip":
                # on the kinds listed, skip_to_end does not reserve (it stores the length): a fetch_add on the position
                # counter between the call and the return of a skip_to_end is not the recorded finding
                if env.get("kind") in val:
                    inside = {}
                    bad = False
                    for l in (viol.get("impl_trace") or []):
                        m_ = re.match(r"^E (\d+) call (\S+)", l)
                        if m_:
                            inside[m_.group(1)] = m_.group(2) == "skip"
                            continue
                        m_ = re.match(r"^E (\d+) ret ", l)
                        if m_:
                            inside[m_.group(1)] = False
                            continue
                        m_ = re.match(r"^L (\d+) atom C add ", l)
                        if m_ and inside.get(m_.group(1)):
                            bad = True
                    ok = ok and not bad
            elif key == "class":
                # a wrap of a counter explains wrong deliveries judged by the extracted checkers -- not a dead process,
                # a hang, a leak, a twin difference, a probe or an undocumented panic
                ok = ok and val in trace_classes(viol.get("impl_trace")) and str(viol.get("checker") or "").startswith("chk_")
            else:
                ok = False
        if ok:
            return k
    return None


# ------------------------------------------------------------------ per-property configuration

PROPS = {
    # chk: numbers of the extracted checkers evaluated on implementation traces
    "C01": dict(chk=[1], n=(800, 5000), tiny=(12, 60)),
    "C02": dict(chk=[2], n=(800, 5000), tiny=(8, 40)),
    "C03": dict(chk=[3], n=(800, 5000), tiny=(10, 50)),
    "C04": dict(chk=[4, 2], n=(800, 5000), tiny=(10, 50)),
    "C05": dict(chk=[5], n=(800, 5000), tiny=(8, 40)),
    "C06": dict(chk=[6, 8], n=(800, 5000), tiny=(12, 60)),
    "C07": dict(chk=[7], n=(800, 5000), tiny=(14, 70)),
    "C08": dict(chk=[8], n=(800, 5000), tiny=(10, 50)),
    "C09": dict(chk=[5], n=(800, 5000), tiny=(12, 60), progress=True),
    "C10": dict(chk=[10, 2], n=(800, 5000), tiny=(6, 30)),
    "C11": dict(chk=[11], n=(800, 5000), tiny=(10, 50)),
    "C12": dict(chk=[12], n=(400, 3000), tiny=(8, 30), progress=True),
    "C13": dict(chk=[1, 2, 3, 5, 6, 8], n=(400, 3000), tiny=(0, 10)),
    "C15": dict(chk=[8], n=(300, 2000), tiny=(0, 10)),
    "C16": dict(chk=[16], n=(600, 6000), tiny=(0, 0), modes=["wrapping", "checked"]),
    "C17": dict(chk=[17, 8, 2, 3], n=(300, 2500), tiny=(0, 10), modes=["wrapping", "checked"]),
    "C18": dict(chk=[8, 2, 1], n=(800, 5000), tiny=(0, 10), progress=True),
    "C19": dict(chk=[2, 8, 5], n=(300, 2000), tiny=(6, 30)),
}


def write_json(path, obj):
    os.makedirs(os.path.dirname(path), exist_ok=True)
    tmp = path + ".tmp%d" % os.getpid()
    with open(tmp, "w") as f:
        json.dump(obj, f, indent=1, sort_keys=True)
    os.replace(tmp, path)


def case_signature(c):
    return json.dumps([c["env"], c["progs"], c["final"], c.get("sched")], sort_keys=True)


def nontrivial(model_lines):
    """a (case, schedule) is non-trivial if two threads' operations overlapped in time, or a boundary
    branch was taken (a pull reported the end, a chunk came back short, a panic, a skip)"""
    pending = set()
    overlap = False
    boundary = False
    for l in model_lines:
        w = l.split()
        if len(w) >= 3 and w[0] == "E" and w[2] == "call":
            pending.add(w[1])
            if len(pending) >= 2:
                overlap = True
            if w[3] == "skip":
                boundary = True
        elif len(w) >= 4 and w[0] == "E" and w[2] == "ret":
            pending.discard(w[1])
            r = w[3]
            if r == "none" or r.startswith("panic") or r.startswith("loop"):
                boundary = True
            if r.startswith("chunk:"):
                boundary = True
    return overlap, boundary


def stats_of(cases):
    st = {"kinds": {}, "threads": {}, "ops": {}, "len": {}, "final": {}}
    for c in cases:
        st["kinds"][c["env"]["kind"]] = st["kinds"].get(c["env"]["kind"], 0) + 1
        st["threads"][str(len(c["progs"]))] = st["threads"].get(str(len(c["progs"])), 0) + 1
        ln = c["env"]["len"]
        lk = str(ln) if ln <= 12 else "large"
        st["len"][lk] = st["len"].get(lk, 0) + 1
        st["final"][c["final"].split(":")[0]] = st["final"].get(c["final"].split(":")[0], 0) + 1
        for p in c["progs"]:
            for o in p:
                k = o.split(":")[0]
                st["ops"][k] = st["ops"].get(k, 0) + 1
    return st


def load_corpus(prop):
    out = []
    d = os.path.join(ROOT, "corpus")
    for path in sorted(glob.glob(os.path.join(d, "*.case"))):
        txt = open(path).read()
        m = re.search(r"^# props: (.*)$", txt, re.M)
        props = m.group(1).split() if m else []
        if prop in props or "all" in props:
            out.append((os.path.basename(path), txt))
    return out


def parse_case_text(txt):
    """parses the text format back into case dicts (used for corpus and replay files)"""
    cases = []
    cur = None
    for line in txt.splitlines():
        w = line.split()
        if not w or w[0].startswith("#"):
            continue
        if w[0] == "case":
            cur = dict(id=w[1], env={}, progs=[], final="none", seed=0, gen="random", sched=None)
        elif cur is None:
            continue
        elif w[0] == "env":
            e = {}
            for kv in w[1:]:
                k, v = kv.split("=", 1)
                e[k] = v
            cur["env"] = dict(kind=e["kind"], adaptor=e["adaptor"], len=int(e["len"]), start=int(e["start"]), end=int(e["end"]),
                              hint=e["hint"], owning=e["owning"] == "1", mode=e["mode"],
                              crash=None if e["crash"] == "-" else int(e["crash"]))
        elif w[0] == "threads":
            cur["progs"] = [[] for _ in range(int(w[1]))]
        elif w[0] == "prog":
            cur["progs"][int(w[1])] = w[2:]
        elif w[0] == "final":
            cur["final"] = w[1]
        elif w[0] == "seed":
            cur["seed"] = int(w[1])
        elif w[0] == "gen":
            cur["gen"] = w[1]
        elif w[0] == "reps":
            cur["reps"] = int(w[1])
        elif w[0] == "freeze":
            cur["freeze"] = [int(w[1]), int(w[2])]
        elif w[0] == "elem":
            cur["elem"] = w[1]
        elif w[0] == "chunkstyle":
            cur["chunkstyle"] = w[1]
        elif w[0] == "ctor":
            cur["ctor"] = w[1]
        elif w[0] == "gap":
            cur["gap"] = None if w[1] == "-" else int(w[1])
        elif w[0] == "c0":
            cur["c0"] = int(w[1])
        elif w[0] == "multi":
            cur["multi"] = int(w[1])
            cur["mprogs"] = [[] for _ in cur["progs"]]
        elif w[0] == "mprog":
            cur["mprogs"][int(w[1])] = w[2:]
        elif w[0] == "sched":
            cur["sched"] = None if w[1] == "-" else ([] if w[1] == "." else [int(x) for x in w[1].split(",")])
        elif w[0] == "end":
            cases.append(cur)
            cur = None
    return cases


def with_mode(c, mode):
    c2 = json.loads(json.dumps(c))
    c2["env"]["mode"] = mode
    return c2


def explore(prop, cfg, cases, binp, label, props_chk, out):
    """model run (generates the schedules), implementation replay, diff, checkers on implementation traces.
    Accumulates into `out` (a dict of counters and lists)."""
    if not cases:
        return
    text = "".join(gen_cases.fmt_case(c) for c in cases)
    mtraces = run_model(text)
    mblocks, order = parse_blocks(mtraces)
    by_id = {c["id"]: c for c in cases}
    # cases with the schedule the model produced
    replay_cases = []
    for cid in order:
        c = json.loads(json.dumps(by_id[cid]))
        c["sched"] = sched_of(mblocks[cid])
        replay_cases.append(c)
    itraces, dead = run_impl(binp, replay_cases)
    iblocks, _ = parse_blocks(itraces)
    cases_path = os.path.join(BUILD, "tmp", "%s-%s-%d.cases" % (prop, label, os.getpid()))
    os.makedirs(os.path.dirname(cases_path), exist_ok=True)
    open(cases_path, "w").write("".join(gen_cases.fmt_case(c) for c in replay_cases))
    chk, flags = run_chk(cases_path, itraces, props_chk) if props_chk or True else ({}, {})
    mchk, _ = run_chk(cases_path, mtraces, props_chk)
    os.unlink(cases_path)
    for c in replay_cases:
        cid = c["id"]
        out["evaluations"] += 1
        sig = hashlib.sha1(case_signature(c).encode()).hexdigest()
        ov, bd = nontrivial(mblocks.get(cid, []))
        if (ov or bd) and sig not in out["sigs"]:
            out["sigs"].add(sig)
            out["distinct_nontrivial"] += 1
        if ov:
            out["overlapping"] += 1
        if bd:
            out["boundary"] += 1
        ml = mblocks.get(cid, [])
        il = iblocks.get(cid)
        rec = dict(case=c, stream=label)
        if cid in dead or il is None:
            rec["what"] = "the harness process died on this case: %s" % dead.get(cid, "no output")
            rec["checker"] = "process"
            out["violations"].append(rec)
            continue
        out["traces_validated_against_impl"] += 1
        # the checkers, evaluated on the implementation trace
        failed = [p for p, ok in chk.get(cid, {}).items() if not ok]
        fl = flags.get(cid, [])
        if failed:
            rec["what"] = "checker(s) %s return false on the implementation trace" % ",".join("chk_C%02d" % int(p) for p in failed)
            rec["checker"] = "chk_C%02d" % int(failed[0])
            rec["impl_trace"] = il
            rec["model_trace"] = ml
            out["violations"].append(rec)
            continue
        if cfg.get("progress") and any(f.startswith("hang") or f == "incomplete" for f in fl):
            rec["what"] = "a call did not return on the implementation (hang): %s" % "; ".join(fl)
            rec["checker"] = "progress"
            rec["impl_trace"] = il
            rec["model_trace"] = ml
            out["violations"].append(rec)
            continue
        if undocumented_panic(prop, fl):
            rec["what"] = "an operation panicked with a panic that is none of the documented ones: %s" % "; ".join(undocumented_panic(prop, fl))
            rec["checker"] = "undocumented-panic"
            rec["impl_trace"] = il
            rec["model_trace"] = ml
            out["violations"].append(rec)
            continue
        mfailed = [p for p, ok in mchk.get(cid, {}).items() if not ok]
        if mfailed:
            rec["what"] = "checker(s) %s return false on the MODEL trace (theorem and model disagree?)" % ",".join(mfailed)
            rec["checker"] = "model"
            rec["model_trace"] = ml
            out["divergences"].append(rec)
            continue
        d = first_diff(ml, il, keep_ord=(prop == "C07"))
        if d is not None or fl:
            rec["what"] = ("model and implementation differ at line %d: model `%s` / implementation `%s`" % d) if d else ("flags: " + "; ".join(fl))
            rec["impl_trace"] = il
            rec["model_trace"] = ml
            out["divergences"].append(rec)
            continue
        if len(out["samples"]) < 3 and (ov or bd):
            out["samples"].append(dict(case=gen_cases.fmt_case(c).splitlines(), trace=ml[:40]))


def undocumented_panic(prop, fl):
    """an operation of the crate panicked with a message that is none of the documented ones (the driver cannot parse
    the event).  For C16-C18 any such panic contradicts the property; for C10 one raised by into_seq_iter does"""
    if prop in ("C16", "C17", "C18"):
        return [f for f in fl if f.startswith("unparsed:panic") or f.startswith("unparsed-final:panic")]
    if prop == "C10":
        return [f for f in fl if f.startswith("unparsed-final:panic")]
    return []


def random_search(prop, cfg, cases, binp, props_chk, out, label="impl-random"):
    """model-independent search: the harness picks the schedule itself; the checkers judge the implementation trace"""
    if not cases:
        return
    for c in cases:
        c["sched"] = None
    itraces, dead = run_impl(binp, cases)
    iblocks, order = parse_blocks(itraces)
    # attach the schedule the harness chose, so that the case can be replayed (on model and crate)
    rc = []
    for c in cases:
        il = iblocks.get(c["id"])
        c2 = json.loads(json.dumps(c))
        if il is not None:
            c2["sched"] = sched_of(il)
        rc.append(c2)
    cases_path = os.path.join(BUILD, "tmp", "%s-%s-%d.cases" % (prop, label, os.getpid()))
    os.makedirs(os.path.dirname(cases_path), exist_ok=True)
    open(cases_path, "w").write("".join(gen_cases.fmt_case(c) for c in rc))
    chk, flags = run_chk(cases_path, itraces, props_chk)
    os.unlink(cases_path)
    for c in rc:
        cid = c["id"]
        out["evaluations"] += 1
        out["random_schedules"] += 1
        il = iblocks.get(cid)
        rec = dict(case=c, stream=label)
        if cid in dead or il is None:
            rec["what"] = "the harness process died on this case: %s" % dead.get(cid, "no output")
            rec["checker"] = "process"
            out["violations"].append(rec)
            continue
        failed = [p for p, ok in chk.get(cid, {}).items() if not ok]
        fl = flags.get(cid, [])
        if failed:
            rec["what"] = "checker(s) %s return false on the implementation trace" % ",".join("chk_C%02d" % int(p) for p in failed)
            rec["checker"] = "chk_C%02d" % int(failed[0])
            rec["impl_trace"] = il
            out["violations"].append(rec)
        elif cfg.get("progress") and any(f.startswith("hang") or f == "incomplete" for f in fl):
            rec["what"] = "a call did not return on the implementation (hang): %s" % "; ".join(fl)
            rec["checker"] = "progress"
            rec["impl_trace"] = il
            out["violations"].append(rec)
        elif undocumented_panic(prop, fl):
            rec["what"] = "an operation panicked with a panic that is none of the documented ones: %s" % "; ".join(undocumented_panic(prop, fl))
            rec["checker"] = "undocumented-panic"
            rec["impl_trace"] = il
            out["violations"].append(rec)
        elif [f for f in fl if not f.startswith("leftover")] or any(l.startswith("unsupported") for l in il):
            rec["what"] = "flags on a harness-chosen schedule: %s" % "; ".join(fl)
            rec["impl_trace"] = il
            out["divergences"].append(rec)


def enum_search(prop, cfg, mode, binp, out, known, seed, budget_s):
    """widened search, third stage: the systematic family gen_cases.enum_tiny (every kind, lengths 0-2, two threads,
    every pair of one- and two-operation programs), each configuration under several schedules chosen by the harness,
    judged by the extracted checkers; stops at the first violation no finding explains or when the budget is used"""
    t0 = time.time()
    confs = gen_cases.enum_tiny(prop, mode)
    r = gen_cases.Rng(seed * 31 + int(prop[1:]) + 5)
    # deterministic shuffle, so that a budget cut does not always drop the same kinds
    keyed = sorted(((r.below(1 << 30), i) for i in range(len(confs))))
    confs = [confs[i] for _, i in keyed]
    gens = ["random", "random", "pct", "random", "pct", "random"]
    done = 0
    for lo in range(0, len(confs), 600):
        if time.time() - t0 > budget_s:
            break
        cases = []
        for c in confs[lo:lo + 600]:
            for k, g in enumerate(gens):
                c2 = json.loads(json.dumps(c))
                c2["id"] = "%s~%d" % (c["id"], k)
                c2["gen"] = g
                c2["seed"] = (seed * 1000003 + lo * 7 + k * 7919 + len(cases)) % (1 << 30)
                cases.append(c2)
        random_search(prop, cfg, cases, binp, cfg["chk"], out, label="enumerated")
        done += len(cases)
        if [v for v in out["violations"] if known_match(prop, v, known) is None]:
            break
    out["enumerated"] = out.get("enumerated", 0) + done
    return done


def impl_dfs(prop, cfg, tiny, binp, props_chk, out, limit, label="impl-dfs"):
    """systematic exploration of the interleavings of tiny configurations ON THE CRATE, without the model: a schedule
    prefix is replayed and the harness lets the remaining steps run in its fixed order; every position of the schedule
    it reports is a branch point for every other thread.  Used when a proof obligation or the correspondence broke (the
    model's schedules no longer line up with the crate's steps) and in the thorough tier.  The extracted checkers and
    the hang flags judge every trace."""
    runs = 0
    for base in tiny:
        nt = len(base["progs"])
        frontier = [[]]
        seen_prefix = {()}
        seen_sched = set()
        while frontier and runs < limit and not any(v.get("stream") == label for v in out["violations"]):
            batch, frontier = frontier[:150], frontier[150:]
            cases = []
            for k, pre in enumerate(batch):
                c = json.loads(json.dumps(base))
                c["id"] = "%s@%d" % (base["id"], runs + k)
                c["sched"] = pre
                cases.append(c)
            runs += len(cases)
            itraces, dead = run_impl(binp, cases)
            iblocks, _ = parse_blocks(itraces)
            cases_path = os.path.join(BUILD, "tmp", "%s-%s-%d.cases" % (prop, label, os.getpid()))
            os.makedirs(os.path.dirname(cases_path), exist_ok=True)
            open(cases_path, "w").write("".join(gen_cases.fmt_case(c) for c in cases))
            chk, flags = run_chk(cases_path, itraces, props_chk)
            os.unlink(cases_path)
            for c, pre in zip(cases, batch):
                cid = c["id"]
                il = iblocks.get(cid)
                out["evaluations"] += 1
                rec = dict(case=c, stream=label)
                if cid in dead or il is None:
                    rec.update(what="the harness process died on this case: %s" % dead.get(cid, "no output"), checker="process")
                    out["violations"].append(rec)
                    continue
                sc = sched_of(il) or []
                c["sched"] = sc
                failed = [p for p, good in chk.get(cid, {}).items() if not good]
                fl = flags.get(cid, [])
                if failed:
                    rec.update(what="checker(s) %s return false on the implementation trace" % ",".join("chk_C%02d" % int(p) for p in failed),
                               checker="chk_C%02d" % int(failed[0]), impl_trace=il)
                    out["violations"].append(rec)
                    continue
                if cfg.get("progress") and any(f.startswith("hang") or f == "incomplete" for f in fl):
                    rec.update(what="a call did not return on the implementation (hang): %s" % "; ".join(fl), checker="progress", impl_trace=il)
                    out["violations"].append(rec)
                    continue
                if undocumented_panic(prop, fl):
                    rec.update(what="an operation panicked with a panic that is none of the documented ones: %s" % "; ".join(fl), checker="undocumented-panic", impl_trace=il)
                    out["violations"].append(rec)
                    continue
                key = tuple(sc)
                if key in seen_sched:
                    continue
                seen_sched.add(key)
                for i in range(len(pre), min(len(sc), 40)):
                    for u in range(nt):
                        if u != sc[i]:
                            np_ = tuple(sc[:i] + [u])
                            if np_ not in seen_prefix:
                                seen_prefix.add(np_)
                                frontier.append(list(np_))
    out["dfs_schedules"] += runs
    return runs


def dfs_cases(prop, tiny, limit):
    """enumerates all interleavings of the tiny cases with the model; returns replayable cases"""
    if not tiny:
        return [], 0
    text = "".join(gen_cases.fmt_case(c) for c in tiny)
    outp = run_dfs(text, limit)
    blocks, order = parse_blocks(outp)
    by_id = {c["id"]: c for c in tiny}
    cases = []
    deadlocks = 0
    for cid in order:
        base = cid.split("#")[0]
        c = json.loads(json.dumps(by_id[base]))
        c["id"] = cid
        c["sched"] = sched_of(blocks[cid])
        if any(l.startswith("deadlock") for l in blocks[cid]):
            deadlocks += 1
            c["deadlock"] = True
        cases.append(c)
    return cases, deadlocks


def run_check(prop, tier, seed):
    try:
        return run_check_inner(prop, tier, seed)
    except RuntimeError as ex:
        # the extracted driver failed or timed out: the correspondence cannot be evaluated
        path = os.path.join(ROOT, "replays", "%s-unproved.json" % prop)
        write_json(path, dict(property=prop, what="no failing input found; the property is no longer shown to hold",
                              proof_obligations_that_do_not_check=["the check could not be completed: %s" % str(ex)[-1500:]]))
        print("VIOLATION property=%s replay=%s no-failing-input-found" % (prop, path))
        write_json(os.path.join(ROOT, "evidence", "%s.json" % prop),
                   dict(property_id=prop, tier=tier, seed=seed, level=LEVELS.get(prop, "proof"),
                        coverage=dict(evaluations=0, distinct_nontrivial=0, rule="the check could not be completed", samples=[dict(error=str(ex)[-500:])]),
                        assumptions=COMMON_ASSUMPTIONS, wall_s=0.0, violations=1))
        return 1


def run_check_inner(prop, tier, seed):
    t0 = time.time()
    os.makedirs(BUILD, exist_ok=True)
    for stale in ("%s-violation.json" % prop, "%s-unproved.json" % prop):
        try:
            os.unlink(os.path.join(ROOT, "replays", stale))
        except OSError:
            pass
    cfg = PROPS.get(prop)
    special = SPECIAL.get(prop)
    known = load_known()
    problems = []     # proof-side problems (obligations that do not check)
    # ---- 1. proofs
    ok, proofs_ok, log, gen_msgs = build_coq(prop)
    problems += gen_msgs
    if not ok:
        tail = "\n".join(log.strip().splitlines()[-25:])
        problems.append("the model (coq/theories, extraction, driver) does not build:\n" + tail)
    elif not proofs_ok:
        tail = "\n".join(log.strip().splitlines()[-25:])
        problems.append("the proofs that %s depends on do not check any more:\n%s" % (prop, tail))
    forb = grep_forbidden()
    if forb:
        problems.append("forbidden words in the development: " + "; ".join(forb[:10]))
    theorems, discharged, pp, raw = ([], [], [], "")
    if ok and proofs_ok:
        theorems, discharged, pp, raw = prop_obligations(prop)
        problems += pp
    elif os.path.exists(os.path.join(COQ, "props", prop + ".v")):
        theorems = re.findall(r"^\s*Theorem\s+([A-Za-z0-9_']+)", open(os.path.join(COQ, "props", prop + ".v")).read(), re.M)
    if tier == "thorough" and ok and proofs_ok:
        with Lock("coq"):
            rc, out = sh("coqchk -silent -o -Q theories OCI -Q gen OCI.gen -Q proofs OCI.proofs -Q props OCI.props OCI.props.%s" % prop, cwd=COQ, timeout=3000)
        open(os.path.join(BUILD, "logs", "coqchk_%s.log" % prop), "w").write(out)
        if rc != 0:
            problems.append("coqchk rejects the compiled theorems of %s: %s" % (prop, out.strip()[-800:]))
        else:
            m = re.search(r"Axioms:\s*(.*)", out, re.S)
            ax = m.group(1).strip() if m else "?"
            if not ax.startswith("<none>"):
                problems.append("coqchk reports axioms: " + ax[:500])

    out = dict(evaluations=0, distinct_nontrivial=0, overlapping=0, boundary=0, traces_validated_against_impl=0,
               random_schedules=0, dfs_schedules=0, violations=[], divergences=[], samples=[], sigs=set())
    input_stats = {}
    # ---- 2./3. correspondence and search
    modes = (cfg or {}).get("modes", ["wrapping"])
    bins = {}
    if ok and (cfg is not None or special is not None):
        for mode in modes:
            profile = "release" if mode == "wrapping" else "debug"
            b, blog = build_harness(profile)
            if b is None:
                problems.append("the harness does not build against /repo (%s profile):\n%s" % (profile, "\n".join(blog.strip().splitlines()[-25:])))
            else:
                bins[mode] = b
    try:
        if cfg is not None and ok and len(bins) == len(modes):
            n = cfg["n"][0 if tier == "quick" else 1]
            ntiny = cfg["tiny"][0 if tier == "quick" else 1]
            for mode in modes:
                binp = bins[mode]
                # corpus first
                corpus = []
                for name, txt in load_corpus(prop):
                    for c in parse_case_text(txt):
                        c = with_mode(c, mode)
                        c["id"] = "corpus-%s-%s" % (name.replace(".case", ""), c["id"])
                        corpus.append(c)
                explore(prop, cfg, [c for c in corpus if c["sched"] is not None or True], binp, "corpus-" + mode, cfg["chk"], out)
                cases = gen_cases.stream(prop, seed, n, mode)
                input_stats[mode] = stats_of(cases)
                explore(prop, cfg, cases, binp, "generated-" + mode, cfg["chk"], out)
                # exhaustive interleavings of tiny configurations
                if ntiny:
                    tiny = gen_cases.tiny_stream(prop, seed, ntiny, mode)
                    dc, deadlocks = dfs_cases(prop, tiny, 400 if tier == "quick" else 3000)
                    out["dfs_schedules"] += len(dc)
                    if deadlocks and cfg.get("progress"):
                        problems.append("the model deadlocks on %d enumerated schedules" % deadlocks)
                    explore(prop, cfg, dc, binp, "dfs-" + mode, cfg["chk"], out)
                # model-independent random schedules on the crate
                rcases = gen_cases.stream(prop, seed + 7919, max(50, n // 3), mode)
                for c in rcases:
                    c["id"] = "r" + c["id"]
                random_search(prop, cfg, rcases, binp, cfg["chk"], out)
        if special is not None and ok:
            special(prop, tier, seed, bins, out, problems)
        if tier == "thorough" and cfg is not None and ok and bins.get("wrapping") and cfg["tiny"][1]:
            impl_dfs(prop, cfg, gen_cases.tiny_stream(prop, seed + 57, 40, "wrapping"), bins["wrapping"], cfg["chk"], out, 20000)
            enum_search(prop, cfg, "wrapping", bins["wrapping"], out, known, seed, 240)
        # widen the search when a proof obligation or the correspondence broke and no failing input is known yet
        if (problems or out["divergences"]) and not [v for v in out["violations"] if known_match(prop, v, known) is None] and cfg is not None and bins:
            # first: all interleavings of tiny configurations on the crate itself
            for mode in modes:
                if mode in bins and not out["violations"]:
                    tiny = gen_cases.tiny_stream(prop, seed + 31, 25 if tier == "quick" else 120, mode)
                    impl_dfs(prop, cfg, tiny, bins[mode], cfg["chk"], out, 6000 if tier == "quick" else 40000)
            for k in range(1, 4 if tier == "quick" else 10):
                if [v for v in out["violations"] if known_match(prop, v, known) is None]:
                    break
                for mode in modes:
                    if mode not in bins:
                        continue
                    rcases = gen_cases.stream(prop, seed + 104729 * k, 600, mode)
                    for c in rcases:
                        c["id"] = "w%d%s" % (k, c["id"])
                    random_search(prop, cfg, rcases, bins[mode], cfg["chk"], out, label="widened")
                if out["violations"]:
                    break
            for mode in modes:
                if mode in bins and not [v for v in out["violations"] if known_match(prop, v, known) is None]:
                    enum_search(prop, cfg, mode, bins[mode], out, known, seed, 90 if tier == "quick" else 900)
    finally:
        for b in bins.values():
            try:
                os.unlink(b)
            except OSError:
                pass

    with open(os.path.join(BUILD, "logs", "%s.divergences.txt" % prop), "w") as f:
        for d in out["divergences"][:500]:
            f.write("%s | %s | %s\n" % (d["case"]["id"], d.get("stream"), d["what"][:300]))
    # ---- 4. verdict
    exit_code = 0
    lines = []
    os.makedirs(os.path.join(ROOT, "replays"), exist_ok=True)
    reported = 0
    known_hit = {}
    new_viol = []
    for v in out["violations"]:
        k = known_match(prop, v, known)
        if k is not None:
            known_hit.setdefault(k["id"], (k, 0))
            known_hit[k["id"]] = (k, known_hit[k["id"]][1] + 1)
        else:
            new_viol.append(v)
    for kid, (k, cnt) in sorted(known_hit.items()):
        lines.append("KNOWN-FINDING: property=%s %s (%s; reproduced on %d case(s) in this run)" % (prop, k["what"], kid, cnt))
    if new_viol:
        v = shrink(prop, cfg, new_viol[0], bins_for_shrink=None)
        path = os.path.join(ROOT, "replays", "%s-violation.json" % prop)
        write_json(path, dict(property=prop, what=v["what"], checker=v.get("checker"), stream=v.get("stream"), probe=v.get("probe"),
                              case=gen_cases.fmt_case(v["case"]).splitlines() if v.get("case") else None,
                              impl_trace=v.get("impl_trace"), model_trace=v.get("model_trace"),
                              others=len(new_viol) - 1))
        lines.append("VIOLATION property=%s replay=%s" % (prop, path))
        exit_code = 1
    elif problems or out["divergences"]:
        path = os.path.join(ROOT, "replays", "%s-unproved.json" % prop)
        first = out["divergences"][0] if out["divergences"] else None
        write_json(path, dict(property=prop,
                              what="no failing input found; the property is no longer shown to hold",
                              proof_obligations_that_do_not_check=problems,
                              correspondence_divergences=len(out["divergences"]),
                              first_divergence=dict(what=first["what"], stream=first.get("stream"),
                                                    case=gen_cases.fmt_case(first["case"]).splitlines(),
                                                    model_trace=first.get("model_trace"), impl_trace=first.get("impl_trace")) if first else None))
        lines.append("VIOLATION property=%s replay=%s no-failing-input-found" % (prop, path))
        exit_code = 1
    wall = time.time() - t0
    # ---- 5. evidence
    level = LEVELS.get(prop, "proof")
    coverage = dict(
        evaluations=out["evaluations"], distinct_nontrivial=out["distinct_nontrivial"],
        rule="cases from tools/gen_cases.py (stream %s, seed %d): structured per-thread programs over all source kinds, lengths 0-12, "
             "1-3 threads; schedules generated by running the extracted model (random / PCT-like / round-robin / solo), all interleavings of "
             "tiny configurations (stateless DFS with parked spinners), and schedules chosen by the harness itself; a (case, schedule) "
             "is counted as distinct and non-trivial if its (env, programs, final, schedule) is new and either two calls overlapped "
             "in time or a boundary branch was taken (end report, short chunk, skip, panic)" % (prop, seed),
        samples=out["samples"] if out["samples"] else [dict(note="no generated case in this run", theorems=theorems)],
        traces_validated_against_impl=out["traces_validated_against_impl"],
        overlapping_cases=out["overlapping"], boundary_cases=out["boundary"],
        dfs_schedules=out["dfs_schedules"], harness_chosen_schedules=out["random_schedules"],
        correspondence_divergences=len(out["divergences"]),
        input_distribution=input_stats,
        obligations=max(1, len(theorems)) if level == "proof" else len(theorems),
        discharged=len(discharged),
        theorems=theorems,
        checker_cmd="cd /verif/coq && coq_makefile -f _CoqProject -o Makefile && make -j16 && coqc -Q theories OCI ... props/%s.v  (Coq 8.16.1; thorough tier: coqchk -o)" % prop,
        trusted_base=TRUSTED_BASE,
        print_assumptions=[l for l in raw.splitlines() if l.strip()][:40],
        repo_fingerprint=repo_fingerprint(),
        known_findings_reproduced=sorted(known_hit.keys()),
    )
    if extra_coverage.get(prop):
        ex = dict(extra_coverage[prop])
        if ex.get("rule_only"):
            coverage["rule"] = ex.pop("rule_only")
        if ex.get("rule_extra"):
            coverage["rule"] += "; in addition: " + ex.pop("rule_extra")
        coverage.update(ex)
    ev = dict(property_id=prop, tier=tier, seed=seed, level=level, coverage=coverage,
              assumptions=ASSUMPTIONS.get(prop, []) + COMMON_ASSUMPTIONS,
              wall_s=round(wall, 2), violations=len(new_viol) + (1 if (exit_code == 1 and not new_viol) else 0))
    write_json(os.path.join(ROOT, "evidence", "%s.json" % prop), ev)
    for l in lines:
        print(l)
    print("%s: %s  theorems=%d/%d cases=%d nontrivial=%d validated=%d dfs=%d divergences=%d violations=%d  (%.1fs)" % (
        prop, "OK" if exit_code == 0 else "FAILED", len(discharged), len(theorems), out["evaluations"], out["distinct_nontrivial"],
        out["traces_validated_against_impl"], out["dfs_schedules"], len(out["divergences"]), len(new_viol), wall))
    return exit_code


def shrink(prop, cfg, v, bins_for_shrink=None):
    """placeholder for shrinking: the failing case is reported as found (cases are small by construction)"""
    return v


def do_replay(prop, path):
    rec = json.load(open(path))
    stream = rec.get("stream") or ""
    case_lines = rec.get("case") or (rec.get("first_divergence") or {}).get("case")
    ok, _proofs_ok, log, msgs = build_coq(prop)
    if not ok:
        print("the model does not build")
        return 1
    out = dict(evaluations=0, distinct_nontrivial=0, overlapping=0, boundary=0, traces_validated_against_impl=0,
               random_schedules=0, dfs_schedules=0, violations=[], divergences=[], samples=[], sigs=set())
    if stream == "probes19":
        binp, blog = build_harness("release")
        try:
            SPECIAL[prop](prop, "quick", 1, {"wrapping": binp}, out, [])
        finally:
            os.unlink(binp)
        hit = [v for v in out["violations"] if v.get("probe") == rec.get("probe")]
        for v in hit:
            print(v["what"])
            print("\n".join(v.get("impl_trace") or []))
        print("---- probe %s: %s" % (rec.get("probe"), "still fails" if hit else "passes now"))
        return 1 if hit else 0
    if stream == "probes":
        import c14
        c14.special(prop, "thorough", 1, {}, out, [])
        hit = [v for v in out["violations"] if v.get("probe") == rec.get("probe")]
        for v in hit:
            print(v["what"])
            print("\n".join(v.get("impl_trace") or []))
        print("---- probe %s: %s" % (rec.get("probe"), "still fails" if hit else "passes now"))
        return 1 if hit else 0
    if not case_lines:
        print(json.dumps(rec, indent=1))
        return 0
    txt = "\n".join(case_lines) + "\n"
    cases = parse_case_text(txt)
    c = cases[0]
    profile = "release" if c["env"]["mode"] == "wrapping" else "debug"
    binp, blog = build_harness(profile)
    if stream in ("twin", "frozen-thread", "allocator", "zst", "multi", "chunk-style", "non-fused", "lying-hint", "clone-crash", "wrapper-seq") and prop in SPECIAL:
        ONLY[stream] = c
        problems = []
        try:
            SPECIAL[prop](prop, "quick", 1, {"wrapping": binp}, out, problems)
        finally:
            ONLY.clear()
            os.unlink(binp)
        print("---- case\n" + gen_cases.fmt_case(c))
        for v in out["violations"] + out["divergences"]:
            print("---- " + v["what"])
            print("\n".join(v.get("impl_trace") or []))
        print("---- %d violation(s), %d divergence(s)" % (len(out["violations"]), len(out["divergences"])))
        return 1 if (out["violations"] or out["divergences"]) else 0
    mtr = run_model(gen_cases.fmt_case(c))
    mblocks, order = parse_blocks(mtr)
    c["sched"] = sched_of(mblocks[c["id"]])
    itr, dead = run_impl(binp, [c])
    os.unlink(binp)
    print("---- case\n" + gen_cases.fmt_case(c))
    print("---- model trace\n" + mtr)
    print("---- implementation trace\n" + itr)
    cfg = PROPS.get(prop, dict(chk=[]))
    cp = os.path.join(BUILD, "tmp", "replay-%d.cases" % os.getpid())
    os.makedirs(os.path.dirname(cp), exist_ok=True)
    open(cp, "w").write(gen_cases.fmt_case(c))
    chk, flags = run_chk(cp, itr, cfg["chk"] or [1])
    os.unlink(cp)
    print("---- checkers on the implementation trace: %s flags: %s" % (chk, flags))
    iblocks, _ = parse_blocks(itr)
    d = first_diff(mblocks[c["id"]], iblocks.get(c["id"], []), keep_ord=(prop == "C07"))
    print("---- first difference: %s" % (d,))
    bad = any(not ok for r in chk.values() for ok in r.values())
    hang = cfg.get("progress") and any(f.startswith("hang") or f == "incomplete" for fl in flags.values() for f in fl)
    return 1 if (bad or d or dead or hang) else 0


# ------------------------------------------------------------------ texts for the evidence

TRUSTED_BASE = [
    "Coq 8.16.1 kernel (coqc; coqchk in the thorough tier); vm_compute in witness lemmas; no native_compute",
    "axioms: none (Print Assumptions output is recorded in coverage.print_assumptions and checked against an empty allow-list)",
    "extraction to OCaml 4.13.1 with ExtrOcamlBasic only (Extract Inductive for bool, option, unit, list, prod, sumbool; no Extract Constant); ocaml/drv.ml (parser, printer, schedule generation)",
    "correspondence check: src/verif_shim.rs in /repo, /verif/harness (baton scheduler, probes, drop ledger), tools/gen_cases.py, tools/verif_lib.py",
    "translators tools/extract_*.py (source -> coq/gen/*.v)",
    "modelled, not verified: std atomics as SC values with C11 release/acquire synchronisation; Vec, vec::IntoIter, ManuallyDrop, ptr::read/add/copy/drop_in_place, slice::Iter, Range, iterator adaptors of std; unwinding; rustc's overflow checks",
]
COMMON_ASSUMPTIONS = [
    "the theorems are about the hand-written Gallina model (coq/theories/Machine.v); the model is tied to /repo by lock-step differential replay on generated cases, which is testing",
    "the wrapped iterator is fused and its exact size hint is truthful; element destructors and clones do not touch the iterator",
]
ASSUMPTIONS = {}
LEVELS = {}
SPECIAL = {}
extra_coverage = {}
ONLY = {}     # --replay: stream name -> the one case to run instead of the generated ones


def special_c13(prop, tier, seed, bins, out, problems):
    """lock-step twin comparison on the crate itself: the adaptor (cloned()/copied()) and an identical underlying
    reference-yielding iterator are driven through the same operations under the same schedule; every event
    (call, return with indices / chunk boundaries / lengths / end / skip behaviour, end of life) must be the same"""
    binp = bins.get("wrapping")
    if binp is None:
        return
    n = 300 if tier == "quick" else 2500
    cases = [c for c in gen_cases.stream("C13", seed + 31, n, "wrapping") if c["env"]["adaptor"] != "none"]
    # "everything that is left": chunk and buffer sizes at the upper end of usize, which the underlying iterators clamp
    rt = gen_cases.Rng(seed * 4441 + 13)
    for c in cases:
        if rt.chance(1, 5):
            big = rt.choice([gen_cases.UMAX, gen_cases.UMAX // 2 + 1, 1 << 62, gen_cases.UMAX - 3])
            if c["env"]["kind"] != "iter":
                # (not on the wrapper over an iterator, which reserves what is requested: F14)
                p = c["progs"][rt.below(len(c["progs"]))]
                p.insert(rt.below(len(p) + 1), "chunk:%d:%d" % (big, rt.choice([0, 1, 9])))
        elif rt.chance(1, 8):
            # a chunk pull of size zero through the adaptor
            p = c["progs"][rt.below(len(c["progs"]))]
            p.insert(rt.below(len(p) + 1), "chunk:0:%d" % rt.choice([0, 1]))
    if "twin" in ONLY:
        cases = [ONLY["twin"]]
    text = "".join(gen_cases.fmt_case(c) for c in cases)
    mblocks, order = parse_blocks(run_model(text))
    by_id = {c["id"]: c for c in cases}
    adapt, twin = [], []
    for cid in order:
        c = json.loads(json.dumps(by_id[cid]))
        c["sched"] = sched_of(mblocks[cid])
        adapt.append(c)
        t = json.loads(json.dumps(c))
        t["env"]["adaptor"] = "none"
        twin.append(t)
    ia, dead_a = run_impl(binp, adapt)
    it, dead_t = run_impl(binp, twin)
    ba, _ = parse_blocks(ia)
    bt, _ = parse_blocks(it)
    compared = 0
    for c in adapt:
        cid = c["id"]
        la, lt = ba.get(cid), bt.get(cid)
        if la is None or lt is None or cid in dead_a or cid in dead_t:
            out["violations"].append(dict(case=c, stream="twin", checker="process",
                                          what="the harness process died on the adaptor or on its underlying twin: %s %s" % (dead_a.get(cid), dead_t.get(cid))))
            continue
        compared += 1
        ea = [norm_line(l) for l in la if l.startswith("E ")]
        et = [norm_line(l) for l in lt if l.startswith("E ")]
        if ea != et:
            k = next((i for i in range(max(len(ea), len(et))) if (ea[i] if i < len(ea) else None) != (et[i] if i < len(et) else None)), 0)
            # "the same schedule" means something only while both perform the same shared-memory accesses: if the first
            # difference of the two traces is a step (an L line), the interleavings are not comparable any more, and the
            # difference of the events may be an artefact.  Then the two are compared under a schedule that does not
            # depend on the number of steps: one thread after the other
            fa = [norm_line(l) for l in la if not l.startswith(("sched ", "Z "))]
            ft = [norm_line(l) for l in lt if not l.startswith(("sched ", "Z "))]
            j = next((i for i in range(min(len(fa), len(ft))) if fa[i] != ft[i]), min(len(fa), len(ft)))
            first_is_event = (fa[j] if j < len(fa) else "E").startswith("E ") and (ft[j] if j < len(ft) else "E").startswith("E ")
            if not first_is_event:
                ca, ct = json.loads(json.dumps(c)), json.loads(json.dumps(c))
                serial = [t for t in range(len(c["progs"])) for _ in range(3000)]
                for x in (ca, ct):
                    x["sched"] = list(serial)
                ct["env"]["adaptor"] = "none"
                sa, da = run_impl(binp, [ca])
                st, dt = run_impl(binp, [ct])
                sea = [norm_line(l) for l in parse_blocks(sa)[0].get(cid, []) if l.startswith("E ")]
                set_ = [norm_line(l) for l in parse_blocks(st)[0].get(cid, []) if l.startswith("E ")]
                if not da and not dt and sea == set_:
                    out["divergences"].append(dict(case=c, stream="twin", impl_trace=la, model_trace=lt,
                                                   what="adaptor and underlying iterator perform different shared-memory accesses (first difference at line %d: underlying `%s` / adaptor `%s`); "
                                                        "with one thread after the other they behave alike" % (j, ft[j] if j < len(ft) else "<nothing>", fa[j] if j < len(fa) else "<nothing>")))
                    continue
                if not da and not dt:
                    k = next((i for i in range(max(len(sea), len(set_))) if (sea[i] if i < len(sea) else None) != (set_[i] if i < len(set_) else None)), 0)
                    c = dict(ca, sched=sched_of(parse_blocks(sa)[0].get(cid, [])) or serial)
                    la, lt, ea, et = parse_blocks(sa)[0].get(cid, []), parse_blocks(st)[0].get(cid, []), sea, set_
            out["violations"].append(dict(case=c, stream="twin", checker="twin", impl_trace=la, model_trace=lt,
                                          what="the adaptor and the underlying iterator, driven by the same operations under the same schedule, differ at event %d: adaptor `%s` / underlying `%s`"
                                               % (k, ea[k] if k < len(ea) else "<nothing>", et[k] if k < len(et) else "<nothing>")))
            continue
        d = first_diff(lt, la)
        if d is not None:
            out["divergences"].append(dict(case=c, stream="twin", impl_trace=la, model_trace=lt,
                                           what="adaptor and underlying iterator perform different shared-memory accesses at line %d: underlying `%s` / adaptor `%s`" % d))
    out["evaluations"] += compared
    out["traces_validated_against_impl"] += compared
    extra_coverage.setdefault(prop, {})["twin_comparisons"] = compared
    extra_coverage[prop]["rule_extra"] = "twin stream: every generated adaptor history is also run on an identical underlying iterator under the same schedule and the two event streams are compared"


SPECIAL["C13"] = special_c13


def special_c09(prop, tier, seed, bins, out, problems):
    """adversary of the wait-freedom claim on the crate: on the known-size kinds one thread is frozen at an arbitrary
    point (after k of its steps) for as long as any other thread has not finished its program; the others must finish
    (the harness aborts the case as a hang otherwise).  The schedule the harness chose is then replayed on the model."""
    binp = bins.get("wrapping")
    if binp is None:
        return
    n = 300 if tier == "quick" else 3000
    r = gen_cases.Rng(seed * 911 + 9)
    cases = []
    for i in range(n):
        c = gen_cases.gen_conc(r, "C09-frz-%d" % i, gen_cases.WITH_SKIP if r.chance(1, 2) else gen_cases.LOOPS,
                               kinds=[("slice", 3), ("vec", 3), ("array", 2), ("range", 2)], adaptors=r.chance(1, 5))
        if len(c["progs"]) < 2:
            c["progs"].append(["next:val"])
        c["sched"] = None
        if i % 4 == 0:
            # every point at which one of the threads can be frozen early in its program
            ft = r.below(len(c["progs"]))
            for k in range(0, 12):
                ck = json.loads(json.dumps(c))
                ck["id"] = "%s-k%d" % (c["id"], k)
                ck["freeze"] = [ft, k]
                cases.append(ck)
        else:
            c["freeze"] = [r.below(len(c["progs"])), r.below(8)]
            cases.append(c)
    if "frozen-thread" in ONLY:
        cases = [ONLY["frozen-thread"]]
    itraces, dead = run_impl(binp, cases)
    iblocks, order = parse_blocks(itraces)
    replay = []
    frozen_ok = 0
    for c in cases:
        cid = c["id"]
        il = iblocks.get(cid)
        if cid in dead or il is None:
            out["violations"].append(dict(case=c, stream="frozen-thread", checker="process",
                                          what="the harness process died on this case: %s" % dead.get(cid, "no output")))
            continue
        if any(l.startswith("complete 0") for l in il):
            out["violations"].append(dict(case=c, stream="frozen-thread", checker="progress", impl_trace=il,
                                          what="known-size kind: with thread %d frozen after %d of its steps the other threads do not finish (hang)" % tuple(c["freeze"])))
            continue
        frozen_ok += 1
        c2 = json.loads(json.dumps(c))
        c2.pop("freeze", None)
        c2["sched"] = sched_of(il)
        c2["gen"] = "random"
        replay.append(c2)
    out["evaluations"] += len(cases)
    out["random_schedules"] += len(cases)
    # the schedules chosen under the adversary, replayed in lock-step on the model and the crate
    explore(prop, PROPS[prop], replay, binp, "frozen-replay", PROPS[prop]["chk"], out)
    extra_coverage.setdefault(prop, {})["frozen_thread_cases"] = frozen_ok
    extra_coverage[prop]["rule_extra"] = "frozen-thread stream: known-size kinds with one thread frozen after k of its steps while the harness picks the schedule of the others; the chosen schedules are replayed on the model"


def special_c09_all(prop, tier, seed, bins, out, problems):
    special_c09(prop, tier, seed, bins, out, problems)
    if not ONLY:
        # an element whose destructor panics while the machinery destroys it: pulls made afterwards return
        run_probe_dir(prop, "c08", out, problems)


SPECIAL["C09"] = special_c09_all


def special_c14(prop, tier, seed, bins, out, problems):
    import c14
    c14.special(prop, tier, seed, bins, out, problems)
    ex = out.get("extra", {})
    pr = ex.get("probes", {})
    extra_coverage.setdefault(prop, {})["probes"] = dict(pairs=len(pr), names=sorted(pr.keys())[:80])
    extra_coverage[prop]["rule_only"] = ("probe programs under /verif/probes built against the current working tree of /repo: every compile probe is a pair "
        "(a minimal client that rustc must reject with one of the expected error codes, and a twin differing only in the offending type or scope that must compile); "
        "run-time probes are compiled and executed under a drop ledger; an evaluation is one program compiled (and run); a pair counts as distinct and non-trivial")


SPECIAL["C14"] = special_c14


def chunk_footprint_violation(lines):
    """C03 on a one-shot chunk that is consumed through nth / skip / step_by / fold: whatever the chunk hands out or
    destroys (the event of a next_chunk call reports both, the chunk is dropped before the call returns) lies inside
    [begin, begin + announced length) -- a chunk is at most the n consecutive positions from its begin index"""
    call = {}
    for l in lines or []:
        m = re.match(r"^E (\d+) call (\S+)", l)
        if m:
            call[m.group(1)] = m.group(2)
            continue
        m = re.match(r"^E (\d+) ret chunk:(\d+):(\S*):(\d+):(\d+):(\d+) \| (\S+)", l)
        if not m or not call.get(m.group(1), "").startswith("chunk:"):
            continue
        b, runs, ann0, drops = int(m.group(2)), m.group(3), int(m.group(4)), m.group(7)
        lo, hi = b, b + ann0
        for r_ in [x for x in runs.split(",") if x and x != "-"]:
            f = r_.split("/")
            if f[0] != "-" and not (lo <= int(f[0]) and int(f[0]) + int(f[2]) <= hi):
                return "the chunk [%d, %d) handed out the positions [%s, +%s)" % (lo, hi, f[0], f[2])
        if drops != "-":
            for d_ in drops.split(","):
                dl, dc = (int(x) for x in d_.split("/"))
                if dc and not (lo <= dl and dl + dc <= hi):
                    return "the chunk [%d, %d) destroyed the positions [%d, %d), which are not its own" % (lo, hi, dl, dl + dc)
    return None


def chunk_style_stream(prop, tier, seed, bins, out, problems, kinds=None, chks=(8, 2)):
    """chunks consumed through the other methods of Iterator (nth, skip, last, count, fold, step_by) instead of next():
    the model does not describe these consumptions, so the traces are judged by the extracted ledger and index
    checkers only: every element of a consumed collection is handed out or destroyed exactly once"""
    binp = bins.get("wrapping")
    if binp is None:
        return
    n = 240 if tier == "quick" else 2400
    r = gen_cases.Rng(seed * 313 + 8)
    cases = []
    for i in range(n):
        c = gen_cases.gen_conc(r, "%s-style-%d" % (prop, i), dict(next=2, chunk=6, buf=4, skip=1),
                               kinds=kinds or [("vec", 4), ("array", 3), ("iter", 3)], owning_only=(kinds is None))
        c["chunkstyle"] = r.choice(["nth", "skip", "last", "count", "fold", "stepby", "nextnth", "nextskip", "nextstep", "foldpanic", "nextfold", "wnth", "wskip", "wstep"])
        c["final"] = r.choice(["drop", "seq:1", "seq:100"])
        c["sched"] = None
        if c["chunkstyle"].startswith("w"):
            # the styles of the for-loop wrappers apply to single pulls: several of them, up to and beyond the end
            for p_ in c["progs"]:
                p_ += [r.choice(["next:idsvalues", "next:values", "next:idsvalues"]) for _ in range(2 + r.below(4))]
        cases.append(c)
    if "chunk-style" in ONLY:
        cases = [ONLY["chunk-style"]]
    itraces, dead = run_impl(binp, cases)
    iblocks, _ = parse_blocks(itraces)
    rc = []
    for c in cases:
        c2 = json.loads(json.dumps(c))
        il = iblocks.get(c["id"])
        if il is not None:
            c2["sched"] = sched_of(il)
        rc.append(c2)
    cases_path = os.path.join(BUILD, "tmp", "%s-style-%d.cases" % (prop, os.getpid()))
    os.makedirs(os.path.dirname(cases_path), exist_ok=True)
    open(cases_path, "w").write("".join(gen_cases.fmt_case(c) for c in rc))
    chk, flags = run_chk(cases_path, itraces, list(chks))
    os.unlink(cases_path)
    ok = 0
    for c in rc:
        cid = c["id"]
        il = iblocks.get(cid)
        rec = dict(case=c, stream="chunk-style")
        if cid in dead or il is None:
            rec.update(what="the harness process died on this case: %s" % dead.get(cid, "no output"), checker="process")
            out["violations"].append(rec)
            continue
        failed = [p for p, good in chk.get(cid, {}).items() if not good]
        fl = flags.get(cid, [])
        foot = chunk_footprint_violation(il) if prop == "C03" else None
        if foot:
            rec.update(what="chunk consumed with %s(): %s" % (c["chunkstyle"], foot), checker="chunk-footprint", impl_trace=il)
            out["violations"].append(rec)
        elif failed:
            rec.update(what="chunk consumed with %s(): checker(s) %s return false on the implementation trace" % (c["chunkstyle"], ",".join("chk_C%02d" % int(p) for p in failed)),
                       checker="chk_C%02d" % int(failed[0]), impl_trace=il)
            out["violations"].append(rec)
        elif any(f.startswith("hang") or f == "incomplete" or f.startswith("unparsed") for f in fl):
            rec.update(what="chunk consumed with %s(): %s" % (c["chunkstyle"], "; ".join(fl)), impl_trace=il)
            out["divergences"].append(rec)
        else:
            ok += 1
    out["evaluations"] += len(cases)
    out["random_schedules"] += len(cases)
    out["traces_validated_against_impl"] += ok
    extra_coverage.setdefault(prop, {})["chunk_style_cases"] = ok


def special_c08(prop, tier, seed, bins, out, problems):
    chunk_style_stream(prop, tier, seed, bins, out, problems)
    if bins.get("wrapping") and not (set(ONLY) - {"zst"}):
        extra_coverage.setdefault(prop, {})["zero_sized_cases"] = zst_stream(prop, tier, seed, bins["wrapping"], out, 100 if tier == "quick" else 1000)
    if not ONLY:
        run_probe_dir(prop, "c08", out, problems)


SPECIAL["C08"] = special_c08


def wrapper_sequential_stream(prop, tier, seed, bins, out, problems):
    """C04's sequential corollary for the for-loop wrappers driven through nth / skip: one thread pulls with
    `values().nth(1)` / `ids_and_values().skip(2).next()` only; what comes back is what std's Iterator::nth gives on
    the sequential iterator: the element at cursor + k if there is one, else nothing, and the cursor moves past it"""
    binp = bins.get("wrapping")
    if binp is None or (ONLY and "wrapper-seq" not in ONLY):
        return
    n = 80 if tier == "quick" else 800
    r = gen_cases.Rng(seed * 127 + int(prop[1:]))
    cases = []
    for i in range(n):
        kind = r.choice(["slice", "vec", "array", "range", "iter"])
        ln = r.below(9)
        env = gen_cases.mk_env(kind, ln, hint=r.choice(["exact", "inexact", "none"]) if kind == "iter" else "exact",
                               owning=(kind in ("vec", "array")) or (kind == "iter" and r.chance(1, 2)), start=r.choice([0, 5]) if kind == "range" else 0)
        prog = [r.choice(["next:idsvalues", "next:values"]) for _ in range(1 + r.below(6))]
        cases.append(dict(id="%s-wseq-%d" % (prop, i), env=env, progs=[prog], final="drop", seed=0, gen="solo", sched=None,
                          chunkstyle=r.choice(["wnth", "wskip"])))
    if "wrapper-seq" in ONLY:
        cases = [ONLY["wrapper-seq"]]
    itraces, dead = run_impl(binp, cases)
    iblocks, _ = parse_blocks(itraces)
    ok = 0
    for c in cases:
        il = iblocks.get(c["id"])
        rec = dict(case=c, stream="wrapper-seq")
        if c["id"] in dead or il is None:
            rec.update(what="the harness process died on this case: %s" % dead.get(c["id"], "no output"), checker="process")
            out["violations"].append(rec)
            continue
        k = 1 if c["chunkstyle"] == "wnth" else 2
        cur, ln, start = 0, c["env"]["len"], c["env"]["start"]
        rets = [l for l in il if re.match(r"^E 0 ret ", l)]
        bad = None
        for op, l in zip(c["progs"][0], rets):
            pos = cur + k
            want = "none" if pos >= ln else "one:%s/%d/1" % (str(pos) if op == "next:idsvalues" else "-", pos + start)
            got = l.split()[3]
            if got != want:
                bad = "after %d positions, %s through %s(%d) returns `%s`, the sequential iterator gives `%s`" % (
                    min(cur, ln), op, "nth" if k == 1 else "skip", k, got, want)
                break
            cur = min(ln, pos + 1)
        if bad or len(rets) != len(c["progs"][0]):
            rec.update(what="for-loop wrapper driven through nth / skip on one thread: %s" % (bad or "an operation did not return"),
                       checker="sequential-oracle", impl_trace=il)
            out["violations"].append(rec)
        else:
            ok += 1
    out["evaluations"] += len(cases)
    out["traces_validated_against_impl"] += ok
    extra_coverage.setdefault(prop, {})["wrapper_sequential_cases"] = ok


def special_c02(prop, tier, seed, bins, out, problems):
    # index fidelity of what a caller gets out of a chunk through nth / skip / last / fold / step_by, every kind
    chunk_style_stream(prop, tier, seed, bins, out, problems,
                       kinds=[("slice", 2), ("vec", 3), ("array", 3), ("range", 2), ("iter", 3)], chks=(2,))
    nonfused_stream(prop, tier, seed, bins, out, problems, (2,))
    lying_hint_stream(prop, tier, seed, bins, out, problems, (2,))


SPECIAL["C02"] = special_c02


def nonfused_stream(prop, tier, seed, bins, out, problems, chks, final=None, cut_env=True):
    """a wrapped iterator that is NOT fused: call number `gap` of next() returns None although elements remain.  The
    first None is the end (theorem c07_no_call_after_none: next() is not called again), so the implementation traces
    are judged by the extracted checkers against the environment CUT at the gap (c01_any_iterator_runs_as_fused: the
    run is that of a fused iterator of the shorter length); the same histories then run in lock step with the model,
    which has such sources (e_gap)"""
    binp = bins.get("wrapping")
    if binp is None:
        return
    n = 250 if tier == "quick" else 2500
    r = gen_cases.Rng(seed * 617 + int(prop[1:]))
    cases = []
    for i in range(n):
        c = gen_cases.gen_conc(r, "%s-gap-%d" % (prop, i), gen_cases.PULLS_LEN, kinds=[("iter", 1)], final=final)
        c["gap"] = r.below(c["env"]["len"] + 1)
        c["env"]["hint"] = r.choice(["inexact", "none"])     # a source that ends early cannot have a truthful exact hint
        c["sched"] = None
        for p in c["progs"]:
            p += [r.choice(["next:val", "chunk:2:9", "next:idval", "len", "more", "chunk:3:1"]) for _ in range(1 + r.below(3))]
        cases.append(c)
    if "non-fused" in ONLY:
        cases = [ONLY["non-fused"]]
    itraces, dead = run_impl(binp, cases)
    iblocks, _ = parse_blocks(itraces)
    rc = []
    cut = []
    for c in cases:
        c2 = json.loads(json.dumps(c))
        il = iblocks.get(c["id"])
        if il is not None:
            c2["sched"] = sched_of(il)
        rc.append(c2)
        c3 = json.loads(json.dumps(c2))
        c3["env"]["len"] = min(c3["env"]["len"], c3["gap"])
        c3["env"]["end"] = c3["env"]["len"]
        c3.pop("gap", None)
        cut.append(c3)
    cases_path = os.path.join(BUILD, "tmp", "%s-gap-%d.cases" % (prop, os.getpid()))
    os.makedirs(os.path.dirname(cases_path), exist_ok=True)
    open(cases_path, "w").write("".join(gen_cases.fmt_case(c) for c in (cut if cut_env else rc)))
    chk, flags = run_chk(cases_path, itraces, list(chks))
    os.unlink(cases_path)
    ok = 0
    for c in rc:
        cid = c["id"]
        il = iblocks.get(cid)
        rec = dict(case=c, stream="non-fused")
        if cid in dead or il is None:
            rec.update(what="the harness process died on this case: %s" % dead.get(cid, "no output"), checker="process")
            out["violations"].append(rec)
            continue
        failed = [p for p, good in chk.get(cid, {}).items() if not good]
        fl = flags.get(cid, [])
        if failed:
            rec.update(what="wrapped iterator that is not fused (call %d of next() returns None): checker(s) %s return false on the implementation trace"
                            % (c["gap"], ",".join("chk_C%02d" % int(p) for p in failed)), checker="chk_C%02d" % int(failed[0]), impl_trace=il)
            out["violations"].append(rec)
        elif PROPS.get(prop, {}).get("progress") and any(f.startswith("hang") or f == "incomplete" for f in fl):
            rec.update(what="wrapped iterator that is not fused: a call did not return (hang): %s" % "; ".join(fl), checker="progress", impl_trace=il)
            out["violations"].append(rec)
        elif any(f.startswith("hang") or f == "incomplete" for f in fl):
            rec.update(what="wrapped iterator that is not fused: %s" % "; ".join(fl), impl_trace=il)
            out["divergences"].append(rec)
        else:
            ok += 1
    out["evaluations"] += len(cases)
    out["random_schedules"] += len(cases)
    out["traces_validated_against_impl"] += ok
    extra_coverage.setdefault(prop, {})["non_fused_source_cases"] = ok
    # lock step with the model under the schedules the harness chose; the checkers that hold of the uncut environment
    before = len(out["divergences"])
    direct = [k for k in chks if k in (2, 4, 5, 6, 7, 8, 10, 11)] or [5]
    explore(prop, PROPS[prop], [c for c in rc if c.get("sched") is not None], binp, "non-fused", direct, out)
    extra_coverage.setdefault(prop, {})["non_fused_lock_step_divergences"] = len(out["divergences"]) - before


def lying_hint_stream(prop, tier, seed, bins, out, problems, chks):
    """a wrapped iterator whose EXACT size hint is not truthful (it yields more or fewer elements than announced).  The
    model assumes a truthful hint, so these traces are judged by the extracted checkers only, and only by those that
    do not read the announced length (no position twice, index fidelity, end permanence, skip, progress)"""
    binp = bins.get("wrapping")
    if binp is None:
        return
    n = 150 if tier == "quick" else 1500
    r = gen_cases.Rng(seed * 919 + int(prop[1:]))
    cases = []
    for i in range(n):
        c = gen_cases.gen_conc(r, "%s-lie-%d" % (prop, i), gen_cases.PULLS, kinds=[("iter", 1)])
        c["env"]["hint"] = "exact"
        ln = c["env"]["len"]
        c["hintlie"] = r.choice([d for d in (-ln, -3, -2, -1, 1, 2, 5) if ln + d >= 0 and d != 0] or [1])
        c["sched"] = None
        for p in c["progs"]:
            p += [r.choice(["next:val", "chunk:2:9", "next:idval", "chunk:%d:9" % (ln + 1)]) for _ in range(1 + r.below(3))]
        cases.append(c)
    if "lying-hint" in ONLY:
        cases = [ONLY["lying-hint"]]
    itraces, dead = run_impl(binp, cases)
    iblocks, _ = parse_blocks(itraces)
    rc = []
    for c in cases:
        c2 = json.loads(json.dumps(c))
        il = iblocks.get(c["id"])
        if il is not None:
            c2["sched"] = sched_of(il)
        rc.append(c2)
    cases_path = os.path.join(BUILD, "tmp", "%s-lie-%d.cases" % (prop, os.getpid()))
    os.makedirs(os.path.dirname(cases_path), exist_ok=True)
    open(cases_path, "w").write("".join(gen_cases.fmt_case(dict(c, hintlie=0)) for c in rc))
    chk, flags = run_chk(cases_path, itraces, list(chks))
    os.unlink(cases_path)
    ok = 0
    for c in rc:
        cid = c["id"]
        il = iblocks.get(cid)
        rec = dict(case=c, stream="lying-hint")
        if cid in dead or il is None:
            rec.update(what="the harness process died on this case: %s" % dead.get(cid, "no output"), checker="process")
            out["violations"].append(rec)
            continue
        failed = [p for p, good in chk.get(cid, {}).items() if not good]
        fl = flags.get(cid, [])
        if failed:
            rec.update(what="wrapped iterator whose exact size hint is off by %d: checker(s) %s return false on the implementation trace"
                            % (c["hintlie"], ",".join("chk_C%02d" % int(p) for p in failed)), checker="chk_C%02d" % int(failed[0]), impl_trace=il)
            out["violations"].append(rec)
        elif any(f.startswith("hang") or f == "incomplete" for f in fl):
            rec.update(what="wrapped iterator whose exact size hint is off by %d: a call did not return (hang): %s" % (c["hintlie"], "; ".join(fl)),
                       checker="progress", impl_trace=il)
            if PROPS.get(prop, {}).get("progress"):
                out["violations"].append(rec)
            else:
                out["divergences"].append(rec)
        else:
            ok += 1
    out["evaluations"] += len(cases)
    out["random_schedules"] += len(cases)
    out["traces_validated_against_impl"] += ok
    extra_coverage.setdefault(prop, {})["lying_hint_cases"] = ok


def clone_crash_stream(prop, tier, seed, bins, out, problems, chks):
    """the k-th clone of an element panics (cloned() over a slice and over a wrapped iterator of references).  The model
    has no such crash point, so the traces are judged by the extracted checkers only (no position twice, index
    fidelity, the source is left alone) and by hang detection: the panic unwinds the caller's operation only"""
    binp = bins.get("wrapping")
    if binp is None:
        return
    n = 200 if tier == "quick" else 2000
    r = gen_cases.Rng(seed * 733 + int(prop[1:]))
    cases = []
    for i in range(n):
        c = gen_cases.gen_conc(r, "%s-clonecrash-%d" % (prop, i), dict(next=4, chunk=3, buf=3, loop=2),
                               kinds=[("slice", 1), ("iter", 1)], adaptors=True)
        c["env"]["adaptor"] = "cloned"
        c["env"]["owning"] = False
        c["clonecrash"] = r.below(2 * c["env"]["len"] + 2)
        c["sched"] = None
        cases.append(c)
    if "clone-crash" in ONLY:
        cases = [ONLY["clone-crash"]]
    itraces, dead = run_impl(binp, cases)
    iblocks, _ = parse_blocks(itraces)
    rc = []
    for c in cases:
        c2 = json.loads(json.dumps(c))
        il = iblocks.get(c["id"])
        if il is not None:
            c2["sched"] = sched_of(il)
        rc.append(c2)
    cases_path = os.path.join(BUILD, "tmp", "%s-clonecrash-%d.cases" % (prop, os.getpid()))
    os.makedirs(os.path.dirname(cases_path), exist_ok=True)
    open(cases_path, "w").write("".join(gen_cases.fmt_case(dict(c, clonecrash=None)) for c in rc))
    chk, flags = run_chk(cases_path, itraces, list(chks))
    os.unlink(cases_path)
    ok = 0
    crashed = 0
    for c in rc:
        cid = c["id"]
        il = iblocks.get(cid)
        rec = dict(case=c, stream="clone-crash")
        if cid in dead or il is None:
            rec.update(what="the harness process died on this case: %s" % dead.get(cid, "no output"), checker="process")
            out["violations"].append(rec)
            continue
        if any("panic:user" in l for l in il):
            crashed += 1
        failed = [p for p, good in chk.get(cid, {}).items() if not good]
        fl = flags.get(cid, [])
        if failed:
            rec.update(what="clone number %d of an element panics: checker(s) %s return false on the implementation trace"
                            % (c["clonecrash"], ",".join("chk_C%02d" % int(p) for p in failed)), checker="chk_C%02d" % int(failed[0]), impl_trace=il)
            out["violations"].append(rec)
        elif any(f.startswith("hang") or f == "incomplete" for f in fl):
            rec.update(what="clone number %d of an element panics: a call did not return (hang): %s" % (c["clonecrash"], "; ".join(fl)),
                       checker="progress", impl_trace=il)
            out["violations"].append(rec)
        elif any(f.startswith("unparsed") for f in fl):
            rec.update(what="clone number %d of an element panics: %s" % (c["clonecrash"], "; ".join(fl)), checker="undocumented-panic", impl_trace=il)
            out["violations"].append(rec)
        else:
            ok += 1
    out["evaluations"] += len(cases)
    out["random_schedules"] += len(cases)
    out["traces_validated_against_impl"] += ok
    extra_coverage.setdefault(prop, {}).update(clone_crash_cases=ok, clone_crash_cases_in_which_the_clone_panicked=crashed)


def special_c18(prop, tier, seed, bins, out, problems):
    clone_crash_stream(prop, tier, seed, bins, out, problems, (2, 5, 8))


SPECIAL["C18"] = special_c18


def special_c05(prop, tier, seed, bins, out, problems):
    nonfused_stream(prop, tier, seed, bins, out, problems, (5,))
    lying_hint_stream(prop, tier, seed, bins, out, problems, (5,))


def mk_special_nonfused(chks, final=None, lying=None, cut_env=True):
    def sp(prop, tier, seed, bins, out, problems):
        nonfused_stream(prop, tier, seed, bins, out, problems, chks, final=final, cut_env=cut_env)
        if lying:
            lying_hint_stream(prop, tier, seed, bins, out, problems, lying)
    return sp


def chain(*fs):
    def sp(prop, tier, seed, bins, out, problems):
        for f in fs:
            f(prop, tier, seed, bins, out, problems)
    return sp


def style_special(chks):
    def sp(prop, tier, seed, bins, out, problems):
        chunk_style_stream(prop, tier, seed, bins, out, problems, chks=chks)
    return sp


# C01: a position that one caller's chunk destroys and another caller is handed is delivered to two owners: the ledger judges
SPECIAL["C01"] = chain(mk_special_nonfused((1,), lying=(1,)), style_special((8,)))
SPECIAL["C03"] = chain(mk_special_nonfused((3,)), style_special((8, 2)))
SPECIAL["C04"] = chain(mk_special_nonfused((4, 2)), style_special((2,)), wrapper_sequential_stream)
SPECIAL["C06"] = mk_special_nonfused((6,), lying=(6,))
# C10: the remainder is what the wrapped iterator still holds, also behind a premature None: judged against the uncut environment
SPECIAL["C10"] = mk_special_nonfused((10,), final="seq:100", cut_env=False)
SPECIAL["C12"] = mk_special_nonfused((12,), lying=(5,))
SPECIAL["C11"] = mk_special_nonfused((11, 2))


SPECIAL["C05"] = special_c05


def zst_stream(prop, tier, seed, binp, out, n):
    """zero-sized elements with a destructor: they have no identity, only drop counts can be compared with the length:
    dropped by the caller + destroyed by the machinery = number of elements"""
    r = gen_cases.Rng(seed * 4243 + 15)
    zc = []
    for i in range(n):
        c = gen_cases.gen_conc(r, "%s-zst-%d" % (prop, i), gen_cases.WITH_SKIP if r.chance(1, 2) else gen_cases.PULLS,
                               kinds=[("vec", 4), ("array", 3), ("iter", 3)], owning_only=True)
        c["elem"] = "zst"
        c["sched"] = None
        c["reps"] = 2
        if r.chance(1, 3):
            c["progs"] = [p[:r.below(2)] for p in c["progs"]]    # consumed not at all / hardly
        zc.append(c)
    if "zst" in ONLY:
        zc = [ONLY["zst"]]
    elif "allocator" in ONLY:
        zc = []
    ztr, zdead = run_impl(binp, zc)
    zblocks, _ = parse_blocks(ztr)
    zok = 0
    for c in zc:
        cid = c["id"]
        il = zblocks.get(cid)
        if cid in zdead or il is None:
            out["violations"].append(dict(case=c, stream="zst", checker="process",
                                          what="the harness process died on this case: %s" % zdead.get(cid, "no output")))
            continue
        if any(l.startswith("complete 0") for l in il):
            continue
        zl = [l for l in il if l.startswith("Z ")]
        m = re.match(r"Z caller=(\d+) machinery=(\d+) len=(\d+)", zl[0]) if zl else None
        if not m:
            out["divergences"].append(dict(case=c, stream="zst", impl_trace=il, what="no drop count for this case"))
            continue
        a, b, ln = int(m.group(1)), int(m.group(2)), int(m.group(3))
        zok += 1
        c2 = json.loads(json.dumps(c))
        c2["sched"] = sched_of(il)
        if a + b != ln:
            out["violations"].append(dict(case=c2, stream="zst", checker="zst-drops", impl_trace=il,
                                          what="zero-sized elements with a destructor: %d dropped by the caller + %d destroyed by the machinery != %d elements" % (a, b, ln)))
    out["evaluations"] += len(zc)
    out["random_schedules"] += len(zc)
    return zok


def special_c15(prop, tier, seed, bins, out, problems):
    if "chunk-style" in ONLY or not ONLY:
        chunk_style_stream(prop, tier, seed, bins, out, problems)
    if "chunk-style" in ONLY:
        return
    """(1) counting global allocator: every history is run three times in one process (create, consume fully / partly /
    not at all, drop, also after concurrent use); live bytes and blocks of the process must not grow from the second
    repetition on.  (2) zero-sized elements with a destructor: the number of elements dropped by the caller plus the
    number destroyed by the machinery must be the length of the collection at the end of life."""
    binp = bins.get("wrapping")
    if binp is None:
        return
    n = 300 if tier == "quick" else 3000
    cases = gen_cases.stream("C15", seed + 51, n, "wrapping")
    ru = gen_cases.Rng(seed * 77 + 5)
    for c in cases:
        if ru.chance(1, 4):
            # consumed not at all, or hardly: the end of life has everything left to release
            c["progs"] = [p[:ru.below(2)] for p in c["progs"]]
            c["final"] = ru.choice(["drop", "seq:0", "seq:1", "seq:100"])
    if "allocator" in ONLY:
        cases = [dict(ONLY["allocator"], id=ONLY["allocator"]["id"].replace("alloc-", ""))]
    elif "zst" in ONLY:
        cases = []
    text = "".join(gen_cases.fmt_case(c) for c in cases)
    mblocks, order = parse_blocks(run_model(text))
    by_id = {c["id"]: c for c in cases}
    rep_cases = []
    for cid in order:
        c = json.loads(json.dumps(by_id[cid]))
        c["id"] = "alloc-" + cid
        c["sched"] = sched_of(mblocks[cid])
        c["reps"] = 3
        rep_cases.append(c)
    itraces, dead = run_impl(binp, rep_cases)
    iblocks, _ = parse_blocks(itraces)
    growth = {}
    for m in re.finditer(r"^alloc (\S+) reps=(\d+) growth_bytes=(-?\d+) growth_blocks=(-?\d+)$", itraces, re.M):
        growth[m.group(1)] = (int(m.group(3)), int(m.group(4)))
    measured = 0
    for c in rep_cases:
        cid = c["id"]
        il = iblocks.get(cid)
        if cid in dead or il is None:
            out["violations"].append(dict(case=c, stream="allocator", checker="process",
                                          what="the harness process died on this case: %s" % dead.get(cid, "no output")))
            continue
        if any(l.startswith("complete 0") for l in il):
            continue   # a hang is reported by the other streams; the iterator is leaked on purpose then
        g = growth.get(cid)
        if g is None:
            out["divergences"].append(dict(case=c, stream="allocator", impl_trace=il, what="no allocator report for this case"))
            continue
        measured += 1
        if g != (0, 0):
            # a leak grows with every repetition: confirm on the case alone with more repetitions (the figures of one run can
            # be disturbed by the teardown of the worker threads)
            g6 = g12 = None
            for reps in (6, 12):
                cr = json.loads(json.dumps(c))
                cr["reps"] = reps
                tr_, dr_ = run_impl(binp, [cr])
                mr = re.search(r"^alloc (\S+) reps=%d growth_bytes=(-?\d+) growth_blocks=(-?\d+)$" % reps, tr_, re.M)
                gr = (int(mr.group(2)), int(mr.group(3))) if mr else None
                if reps == 6:
                    g6 = gr
                else:
                    g12 = gr
            if g6 is None or g12 is None:
                out["divergences"].append(dict(case=c, stream="allocator", impl_trace=il,
                                               what="the live heap grew (%d bytes) but the confirmation runs gave no allocator report" % g[0]))
            elif (g6[0] > 0 or g6[1] > 0) and (g12[0] > g6[0] or g12[1] > g6[1]):
                out["violations"].append(dict(case=c, stream="allocator", checker="alloc",
                                              impl_trace=il + ["alloc reps=3 growth_bytes=%d growth_blocks=%d" % g, "alloc reps=6 growth_bytes=%d growth_blocks=%d" % g6,
                                                               "alloc reps=12 growth_bytes=%d growth_blocks=%d" % g12],
                                              what="repeating create / consume / drop grows the live heap: %d bytes over five repetitions, %d bytes over eleven" % (g6[0], g12[0])))
    out["evaluations"] += len(rep_cases)
    out["traces_validated_against_impl"] += measured
    zok = zst_stream(prop, tier, seed, binp, out, n // 2)
    extra_coverage.setdefault(prop, {}).update(allocator_cases=measured, zero_sized_cases=zok,
        rule_extra="allocator stream: every history repeated three times in one process under a counting global allocator (growth confirmed on six repetitions); zero-sized stream: elements without identity, only drop counts are compared with the length")


SPECIAL["C15"] = special_c15


def run_probe_dir(prop, sub, out, problems, timeout=180):
    """run-time probes under probes/<sub>/*.rs: small client programs over the public API, compiled against the current
    tree and run; each prints `VERDICT: PASS` or `VERDICT: VIOLATION ...`"""
    import c14
    rlib, deps, err = c14.build_crate(REPO)
    if err:
        problems.append("%s probes: %s" % (prop, err))
        return
    pdir = os.path.join(ROOT, "probes", sub)
    tmp = os.path.join(BUILD, "%s-%s-%d" % (sub, prop, os.getpid()))
    os.makedirs(tmp, exist_ok=True)
    for src in sorted(glob.glob(os.path.join(pdir, "*.rs"))):
        name = os.path.basename(src)[:-3]
        exe = os.path.join(tmp, name)
        res = c14.rustc(src, exe, rlib, deps, True)
        out["evaluations"] += 1
        if not res["ok"]:
            problems.append("%s probe %s does not compile against the current tree: %s" % (prop, name, " / ".join(res["rendered"])[:600]))
            continue
        rc, txt = sh([exe], timeout=timeout)
        lines = txt.strip().splitlines()
        if rc == 124 or rc == "timeout":
            out["violations"].append(dict(case=None, stream="probes19", checker="probe", probe=name, impl_trace=lines[-20:],
                                          what="%s probe %s did not finish within %d s (a call does not return)" % (prop, name, timeout)))
        elif rc != 0 or not any(l.startswith("VERDICT: PASS") for l in lines):
            out["violations"].append(dict(case=None, stream="probes19", checker="probe", probe=name, impl_trace=lines[-20:],
                                          what="%s probe %s: %s" % (prop, name, next((l for l in lines if l.startswith("VERDICT")), "exit status %s" % rc))))
        else:
            out["traces_validated_against_impl"] += 1
    shutil.rmtree(tmp, ignore_errors=True)


def special_c19(prop, tier, seed, bins, out, problems):
    """several iterators over one collection (fresh ones and clones made by the threads at arbitrary points) are driven
    together on the crate under one schedule.  The history of every single iterator, with the steps the threads took on
    it, must be the history the model gives for that iterator ALONE, started at the position it was created with; a
    clone reads the position of its original exactly once and writes nothing; delivered references point at the
    collection's own elements; the collection is unmodified afterwards, nothing was cloned or dropped."""
    binp = bins.get("wrapping")
    if binp is None:
        return
    n = 250 if tier == "quick" else 2500
    r = gen_cases.Rng(seed * 1913 + 19)
    cases = [gen_cases.gen_multi(r, "C19-m-%d" % i) for i in range(n)]
    corp = []
    for name, txt in load_corpus(prop):
        for c in parse_case_text(txt):
            if c.get("multi"):
                c["id"] = "corpus-%s-%s" % (name.replace(".case", ""), c["id"])
                corp.append(c)
    cases = corp + cases
    if "multi" in ONLY:
        cases = [ONLY["multi"]]
    itraces, dead = run_impl(binp, cases)
    iblocks, _ = parse_blocks(itraces)
    proj = []          # single-iterator cases, one per iterator of every history
    proj_lines = {}
    owner = {}
    for c in cases:
        cid = c["id"]
        il = iblocks.get(cid)
        if cid in dead or il is None:
            out["violations"].append(dict(case=c, stream="multi", checker="process",
                                          what="the harness process died on this case: %s" % dead.get(cid, "no output")))
            continue
        c2 = json.loads(json.dumps(c))
        c2["sched"] = sched_of(il)
        bad = None
        per = {}
        c0 = {j: 0 for j in range(c["multi"])}
        cur = dict(c0)
        pending_clone = {}
        for l in il:
            m = re.match(r"^#(\d+) (.*)$", l)
            if not m:
                if l.startswith("X ") or (l.startswith("S ") and l != "S intact=1 clones=0 drops=0"):
                    bad = bad or ("the source is not left intact: `%s`" % l)
                continue
            j, body = int(m.group(1)), m.group(2)
            if body.startswith("X "):
                bad = bad or ("a delivered reference does not point at the collection's element: `%s`" % body)
                continue
            if body.startswith("K "):
                w = body.split()
                if w[2] == "clone":
                    pending_clone[(j, int(w[1]))] = dict(slot=int(w[3]), loads=[])
                elif w[2] == "atom":
                    pc = pending_clone.get((j, int(w[1])))
                    if w[3] == "N":
                        pass      # accesses to the counter of the clone under construction (not shared yet)
                    elif pc is None or w[4] != "load":
                        bad = bad or ("clone() of iterator %d performs `%s` on the original's counter" % (j, " ".join(w[2:])))
                    else:
                        pc["loads"].append(int(w[6]))
                        pc["at"] = cur.get(j, 0)      # the position of the original at the moment of the read
                elif w[2] == "cloned":
                    pc = pending_clone.pop((j, int(w[1])), None)
                    start = int(w[4].split("=")[1])
                    if pc is None or len(pc["loads"]) != 1:
                        bad = bad or ("clone() of iterator %d reads the original's counter %d times" % (j, len(pc["loads"]) if pc else 0))
                    else:
                        v = pc["loads"][0]
                        if v != pc["at"]:
                            bad = bad or ("clone() of iterator %d read position %d, the original is at %d" % (j, v, pc["at"]))
                        elif start != v:
                            bad = bad or ("the clone of iterator %d starts at position %d, the original was at %d" % (j, start, v))
                        c0[pc["slot"]] = start
                        cur[pc["slot"]] = start
                else:
                    bad = bad or ("clone() of iterator %d: `%s`" % (j, body))
                continue
            per.setdefault(j, []).append(body)
            ma = re.match(r"^L \d+ atom C (add|store) (\d+) (\d+)", body)
            if ma:
                cur[j] = (int(ma.group(2)) + int(ma.group(3))) % (1 << 64) if ma.group(1) == "add" else int(ma.group(2))
        if bad:
            out["violations"].append(dict(case=c2, stream="multi", checker="multi", impl_trace=il, what=bad))
            continue
        if any(l.startswith("complete 0") for l in il):
            out["violations"].append(dict(case=c2, stream="multi", checker="progress", impl_trace=il, what="a call did not return in a multi-iterator history"))
            continue
        nt = len(c["mprogs"])
        for j, lines in sorted(per.items()):
            progs = [[tok.split(":", 1)[1] for tok in c["mprogs"][t] if tok.startswith("@%d:" % j) and ":clone:" not in tok] for t in range(nt)]
            # the clones of a thread that were never created (the cloning panicked) are reported above
            pc = dict(id="%s#%d" % (cid, j), env=c["env"], progs=progs, final="none", seed=0, gen="random",
                      sched=[int(l.split()[1]) for l in lines if l.startswith("L ")], c0=c0.get(j, 0))
            proj.append(pc)
            proj_lines[pc["id"]] = lines + ["complete 1"]
            owner[pc["id"]] = c2
    out["evaluations"] += len(cases)
    out["random_schedules"] += len(cases)
    if not proj:
        return
    text = "".join(gen_cases.fmt_case(c) for c in proj)
    mblocks, order = parse_blocks(run_model(text))
    cases_path = os.path.join(BUILD, "tmp", "%s-multi-%d.cases" % (prop, os.getpid()))
    os.makedirs(os.path.dirname(cases_path), exist_ok=True)
    open(cases_path, "w").write(text)
    itext = "".join("case %s\n%s\nend\n" % (pid, "\n".join(proj_lines[pid])) for pid in order)
    chk, flags = run_chk(cases_path, itext, [2, 3, 5, 8])
    os.unlink(cases_path)
    ok = 0
    for pc in proj:
        pid = pc["id"]
        ml = mblocks.get(pid, [])
        il = proj_lines[pid]
        failed = [p for p, good in chk.get(pid, {}).items() if not good]
        if failed:
            out["violations"].append(dict(case=owner[pid], stream="multi", checker="chk_C%02d" % int(failed[0]), impl_trace=il, model_trace=ml,
                                          what="iterator %s of a multi-iterator history: checker(s) %s return false on its history" % (pid, ",".join(failed))))
            continue
        ie = [norm_line(l) for l in il if l.startswith("E ")]
        me = [norm_line(l) for l in ml if l.startswith("E ")]
        if ie != me:
            k = next((i for i in range(max(len(ie), len(me))) if (ie[i] if i < len(ie) else None) != (me[i] if i < len(me) else None)), 0)
            out["violations"].append(dict(case=owner[pid], stream="multi", checker="independence", impl_trace=il, model_trace=ml,
                                          what="iterator %s does not progress independently: started at position %d and driven by the same steps alone, the model gives `%s`, the crate `%s`"
                                               % (pid, pc["c0"], me[k] if k < len(me) else "<nothing>", ie[k] if k < len(ie) else "<nothing>")))
            continue
        d = first_diff(ml, il)
        if d is not None:
            out["divergences"].append(dict(case=owner[pid], stream="multi", impl_trace=il, model_trace=ml,
                                           what="iterator %s: model and implementation differ at line %d: model `%s` / implementation `%s`" % ((pid,) + d)))
            continue
        ok += 1
    out["traces_validated_against_impl"] += ok
    out["distinct_nontrivial"] += ok
    # run-time probes built against the crate as a client builds it (element types the harness does not have)
    if "multi" not in ONLY:
        run_probe_dir(prop, "c19", out, problems)
    extra_coverage.setdefault(prop, {}).update(multi_iterator_histories=len(cases), single_iterator_projections=ok,
        rule_extra="multi-iterator stream: 1-2 fresh iterators and the clones that 1-3 threads create over one slice or range, one harness-chosen schedule; each iterator's history is projected out and replayed on the single-iterator model started at the position the clone read")


SPECIAL["C19"] = special_c19
