#!/usr/bin/env python3
"""tools/c14.py -- the probe half of property C14 (type-level safety).

special(prop, tier, seed, bins, out, problems) is the hook called by tools/verif_lib.py; `python3 tools/c14.py
[quick|thorough]` runs it standalone and prints a summary.

On every run:
  (i)   the crate is built from the CURRENT working tree of the repo (env VERIF_REPO, default /repo) as an rlib
        into build/c14/target (release profile, no cfg flags);
  (ii)  every probes/compile/<name>/{bad.rs,good.rs} is compiled against that rlib (metadata only, in parallel)
        and the error codes of rustc's JSON diagnostics are collected;
  (iii) every probes/run/<name>/main.rs is compiled fully and run as a subprocess with a time-out; the program
        prints `VERDICT: OK ...` or `VERDICT: VIOLATION ...`;
  (iv)  the verdicts are compared with probes/*/<name>/expect.json:
          good twin must compile          -- otherwise a PROBLEM of the probe / the crate's API, not a violation;
          bad twin must be rejected with one of expected_codes -- a bad twin that compiles, or that is rejected
                                             only for unrelated reasons, is a VIOLATION;
          a run-time probe whose low-level entry point is not reachable from safe code (rejected with one of
          unreachable_codes) passes; one that prints VERDICT: VIOLATION, or dies of a signal, is a VIOLATION.
Whether a violation is a known finding is decided by the caller (by the `probe` key)."""
import concurrent.futures
import fcntl
import hashlib
import json
import os
import shutil
import subprocess
import sys
import time

ROOT = os.path.dirname(os.path.dirname(os.path.abspath(__file__)))
PROBES = os.path.join(ROOT, "probes")
BUILD = os.path.join(ROOT, "build", "c14")
JOBS = 16
RUSTC_TIMEOUT = 120
RUN_TIMEOUT = 20


def repo_path():
    return os.path.abspath(os.environ.get("VERIF_REPO", "/repo"))


def sh(cmd, cwd=None, env=None, timeout=600):
    e = dict(os.environ)
    e["CARGO_NET_OFFLINE"] = "true"
    for k, v in (env or {}).items():
        if v is None:
            e.pop(k, None)
        else:
            e[k] = v
    try:
        p = subprocess.run(cmd, cwd=cwd, env=e, stdout=subprocess.PIPE, stderr=subprocess.PIPE, timeout=timeout)
        return p.returncode, p.stdout.decode("utf-8", "replace"), p.stderr.decode("utf-8", "replace")
    except subprocess.TimeoutExpired as ex:
        so = (ex.stdout or b"").decode("utf-8", "replace")
        se = (ex.stderr or b"").decode("utf-8", "replace")
        return "timeout", so, se


def build_crate(repo):
    """-> (rlib, deps dir, None) or (None, None, message)"""
    manifest = os.path.join(repo, "Cargo.toml")
    if not os.path.exists(manifest):
        return None, None, "%s does not exist" % manifest
    # one target directory per repo path, so that a scratch copy cannot leave its rlib where /repo's is expected
    tag = "" if repo == "/repo" else "-" + hashlib.sha256(repo.encode()).hexdigest()[:10]
    target = os.path.join(BUILD, "target" + tag)
    # no cfg flags: whatever the caller's environment says, the crate is built as a client would build it
    env = {"CARGO_TARGET_DIR": target, "RUSTFLAGS": None, "CARGO_ENCODED_RUSTFLAGS": None, "CARGO_BUILD_RUSTFLAGS": None}
    cmd = ["cargo", "build", "--offline", "--release", "--lib", "--manifest-path", manifest, "--message-format=json"]
    rc, so, se = sh(cmd, env=env, timeout=900)
    if rc != 0:
        msgs = []
        for line in so.splitlines():
            try:
                j = json.loads(line)
            except ValueError:
                continue
            if j.get("reason") == "compiler-message" and j["message"].get("level") == "error":
                msgs.append((j["message"].get("rendered") or j["message"].get("message", "")).strip())
        tail = "\n".join(msgs[:6]) if msgs else "\n".join(se.strip().splitlines()[-25:])
        return None, None, "the crate does not build from %s (cargo build --offline --release --lib, rc=%s):\n%s" % (repo, rc, tail)
    rlib = None
    for line in so.splitlines():
        try:
            j = json.loads(line)
        except ValueError:
            continue
        if j.get("reason") == "compiler-artifact" and j.get("target", {}).get("name", "").replace("-", "_") == "orx_concurrent_iter":
            for f in j.get("filenames", []):
                if f.endswith(".rlib"):
                    rlib = f
    if rlib is None or not os.path.exists(rlib):
        return None, None, "cargo build succeeded but no rlib of orx_concurrent_iter was reported"
    deps = os.path.join(os.path.dirname(rlib), "deps")
    if not os.path.isdir(deps):
        return None, None, "deps directory %s not found" % deps
    return rlib, deps, None


def rustc(src, outp, rlib, deps, full):
    cmd = ["rustc", "--edition", "2021", "--crate-type", "bin", "-L", "dependency=" + deps,
           "--extern", "orx_concurrent_iter=" + rlib, "--error-format=json", "-o", outp]
    if not full:
        cmd.insert(5, "--emit=metadata")
    cmd.append(src)
    rc, so, se = sh(cmd, timeout=RUSTC_TIMEOUT)
    codes, rendered, ice = [], [], False
    for line in se.splitlines():
        try:
            j = json.loads(line)
        except ValueError:
            if "internal compiler error" in line or "panicked at" in line:
                ice = True
            if line.strip():
                rendered.append(line)
            continue
        if j.get("level") in ("error", "error: internal compiler error"):
            if j.get("level") != "error":
                ice = True
            c = (j.get("code") or {}).get("code")
            if c:
                codes.append(c)
            elif not j.get("message", "").startswith("aborting due to"):
                codes.append("(no code)")
            r = j.get("rendered") or j.get("message") or ""
            if not j.get("message", "").startswith("aborting due to"):
                rendered.append(r.rstrip())
    return dict(rc=rc, ok=(rc == 0), codes=codes, rendered=rendered, ice=ice or rc == "timeout" or (rc not in (0, 1)))


def load_probes(tier, problems):
    comp, run = [], []
    for kind, lst, files in (("compile", comp, ("bad.rs", "good.rs")), ("run", run, ("main.rs",))):
        base = os.path.join(PROBES, kind)
        if not os.path.isdir(base):
            problems.append("C14 probes: directory %s is missing" % base)
            continue
        for name in sorted(os.listdir(base)):
            d = os.path.join(base, name)
            if not os.path.isdir(d):
                continue
            try:
                e = json.load(open(os.path.join(d, "expect.json")))
            except (OSError, ValueError) as ex:
                problems.append("C14 probe %s: expect.json unreadable: %s" % (name, ex))
                continue
            missing = [f for f in files if not os.path.exists(os.path.join(d, f))]
            if missing or e.get("name") != name:
                problems.append("C14 probe %s: %s" % (name, "missing " + ", ".join(missing) if missing else "expect.json names another probe"))
                continue
            if kind == "compile" and not e.get("expected_codes"):
                problems.append("C14 probe %s: no expected_codes" % name)
                continue
            if e.get("tier") == "thorough" and tier != "thorough":
                continue
            e["dir"] = d
            lst.append(e)
    return comp, run


def trace_of(res, limit=40):
    lines = []
    for r in res["rendered"]:
        lines += r.splitlines()
    return lines[:limit]


def special(prop, tier, seed, bins, out, problems):
    t0 = time.time()
    os.makedirs(BUILD, exist_ok=True)
    summary = {}
    extra = out.setdefault("extra", {})
    extra["probes"] = summary
    lock = open(os.path.join(BUILD, "lock"), "w")
    fcntl.flock(lock, fcntl.LOCK_EX)
    try:
        repo = repo_path()
        rlib, deps, err = build_crate(repo)
        if err:
            problems.append("C14 probes: " + err)
            return
        comp, run = load_probes(tier, problems)
        scratch = os.path.join(BUILD, "probe-out-%d" % os.getpid())
        shutil.rmtree(scratch, ignore_errors=True)
        os.makedirs(scratch)
        try:
            jobs = {}
            with concurrent.futures.ThreadPoolExecutor(max_workers=JOBS) as ex:
                for e in comp:
                    for twin in ("bad", "good"):
                        jobs[(e["name"], twin)] = ex.submit(rustc, os.path.join(e["dir"], twin + ".rs"),
                                                            os.path.join(scratch, "%s_%s.rmeta" % (e["name"], twin)), rlib, deps, False)
                for e in run:
                    jobs[(e["name"], "main")] = ex.submit(rustc, os.path.join(e["dir"], "main.rs"),
                                                          os.path.join(scratch, e["name"]), rlib, deps, True)
                res = {k: f.result() for k, f in jobs.items()}
            # a compilation that did not terminate normally under parallel load is retried once, alone
            for k, r in list(res.items()):
                if r["ice"]:
                    e = next(x for x in (comp + run) if x["name"] == k[0])
                    src = os.path.join(e["dir"], ("main" if k[1] == "main" else k[1]) + ".rs")
                    outp = os.path.join(scratch, e["name"] if k[1] == "main" else "%s_%s.rmeta" % (e["name"], k[1]))
                    res[k] = rustc(src, outp, rlib, deps, k[1] == "main")
            n_programs = len(res)
            for k, r in res.items():
                if r["ice"]:
                    problems.append("C14 probe %s (%s): rustc did not terminate normally (rc=%s): %s" % (k[0], k[1], r["rc"], " | ".join(trace_of(r, 5))))

            def violation(e, what, trace):
                out["violations"].append(dict(what=what, checker="probe", probe=e["name"], case=None,
                                              impl_trace=trace, stream="probes"))

            # ---- compile pairs
            for e in comp:
                name = e["name"]
                bad, good = res[(name, "bad")], res[(name, "good")]
                s = dict(kind="compile", clause=e.get("clause"), expected_codes=e["expected_codes"],
                         good="compiles" if good["ok"] else "rejected", good_codes=good["codes"],
                         bad="compiles" if bad["ok"] else "rejected", bad_codes=bad["codes"])
                if e.get("known"):
                    s["known"] = e["known"]
                verdict = "pass"
                if bad["ice"] or good["ice"]:
                    verdict = "problem"
                else:
                    if not good["ok"]:
                        verdict = "problem"
                        problems.append("C14 probe %s: the good twin does not compile against the current tree (%s) -- the probe or the "
                                        "crate's API changed, the verdict of the bad twin says nothing: %s"
                                        % (name, ", ".join(good["codes"]) or "no code", " | ".join(trace_of(good, 6))))
                    if bad["ok"]:
                        verdict = "violation"
                        violation(e, "probe %s: bad.rs is ACCEPTED by rustc, expected a rejection with %s -- %s"
                                  % (name, "/".join(e["expected_codes"]), e.get("description", "")),
                                  ["rustc accepts %s (exit status 0, no error)" % os.path.join("probes/compile", name, "bad.rs")])
                    elif not set(bad["codes"]) & set(e["expected_codes"]):
                        if good["ok"]:
                            verdict = "violation"
                            violation(e, "probe %s: bad.rs is rejected only for an unrelated reason (%s; expected %s) -- %s"
                                      % (name, ", ".join(bad["codes"]) or "no code", "/".join(e["expected_codes"]), e.get("description", "")),
                                      trace_of(bad))
                s["verdict"] = verdict
                summary[name] = s

            # ---- run-time probes
            def run_one(e):
                binp = os.path.join(scratch, e["name"])
                rc, so, se = sh([binp], cwd=scratch, timeout=RUN_TIMEOUT, env={"RUST_BACKTRACE": "0"})
                return rc, so, se

            runnable = [e for e in run if res[(e["name"], "main")]["ok"]]
            with concurrent.futures.ThreadPoolExecutor(max_workers=JOBS) as ex:
                ran = dict(zip([e["name"] for e in runnable], ex.map(run_one, runnable)))
            for e in run:
                name = e["name"]
                c = res[(name, "main")]
                s = dict(kind="run", clause=e.get("clause"), compiled=c["ok"], codes=c["codes"])
                if e.get("known"):
                    s["known"] = e["known"]
                if c["ice"]:
                    s["verdict"] = "problem"
                elif not c["ok"]:
                    unreachable = set(e.get("unreachable_codes", []))
                    if unreachable and c["codes"] and set(c["codes"]) <= unreachable:
                        s["verdict"] = "pass"
                        s["note"] = "the low-level entry point is not reachable from safe code (%s)" % ", ".join(sorted(set(c["codes"])))
                    else:
                        s["verdict"] = "problem"
                        problems.append("C14 run-time probe %s does not compile against the current tree (%s): %s"
                                        % (name, ", ".join(c["codes"]) or "no code", " | ".join(trace_of(c, 6))))
                else:
                    rc, so, se = ran[name]
                    lines = so.strip().splitlines()
                    verdicts = [l for l in lines if l.startswith("VERDICT:")]
                    s["exit"] = rc
                    s["output"] = lines[-12:]
                    trace = lines[-30:] + ["stderr: " + l for l in se.strip().splitlines()[-8:]]
                    if rc == "timeout":
                        s["verdict"] = "problem"
                        problems.append("C14 run-time probe %s: no verdict within %d s" % (name, RUN_TIMEOUT))
                    elif isinstance(rc, int) and rc < 0:
                        s["verdict"] = "violation"
                        violation(e, "probe %s: a program that uses only safe code died of signal %d -- %s" % (name, -rc, e.get("description", "")), trace)
                    elif len(verdicts) != 1 or rc != 0:
                        s["verdict"] = "problem"
                        problems.append("C14 run-time probe %s: exit status %s and %d verdict lines: %s" % (name, rc, len(verdicts), " | ".join(trace[-6:])))
                    elif verdicts[0].startswith("VERDICT: VIOLATION"):
                        s["verdict"] = "violation"
                        violation(e, "probe %s: %s -- %s" % (name, verdicts[0][len("VERDICT: "):], e.get("description", "")), trace)
                    elif verdicts[0].startswith("VERDICT: OK"):
                        s["verdict"] = "pass"
                    else:
                        s["verdict"] = "problem"
                        problems.append("C14 run-time probe %s: verdict line not understood: %s" % (name, verdicts[0]))
                summary[name] = s

            out["evaluations"] = out.get("evaluations", 0) + n_programs
            out["traces_validated_against_impl"] = out.get("traces_validated_against_impl", 0) + n_programs
            out["distinct_nontrivial"] = out.get("distinct_nontrivial", 0) + len(comp) + len(run)
            extra["probes_meta"] = dict(repo=repo, rlib=rlib, programs=n_programs, pairs=len(comp), runtime=len(run),
                                        tier=tier, seconds=round(time.time() - t0, 2))
        finally:
            shutil.rmtree(scratch, ignore_errors=True)
    finally:
        fcntl.flock(lock, fcntl.LOCK_UN)
        lock.close()


def main():
    tier = sys.argv[1] if len(sys.argv) > 1 else "quick"
    if tier not in ("quick", "thorough"):
        print("usage: c14.py [quick|thorough]")
        return 2
    t0 = time.time()
    out = dict(evaluations=0, distinct_nontrivial=0, traces_validated_against_impl=0, violations=[])
    problems = []
    special("C14", tier, 0, {}, out, problems)
    summ = out.get("extra", {}).get("probes", {})
    meta = out.get("extra", {}).get("probes_meta", {})
    print("C14 probes (%s tier) against %s" % (tier, repo_path()))
    for name in sorted(summ, key=lambda n: (summ[n]["kind"], n)):
        s = summ[name]
        if s["kind"] == "compile":
            det = "good %-9s bad %-9s %s" % (s["good"], s["bad"], ",".join(sorted(set(s["bad_codes"]))) or "-")
        else:
            det = "compiled=%s %s" % (s["compiled"], (s.get("output") or [s.get("note", "")])[-1])
        print("  %-9s %-7s %-36s %s%s" % (s["verdict"].upper(), s["kind"], name, det, "   [known: %s]" % s["known"] if s.get("known") else ""))
    print("programs compiled: %d   pairs: %d   run-time probes: %d" % (meta.get("programs", 0), meta.get("pairs", 0), meta.get("runtime", 0)))
    print("violations: %d" % len(out["violations"]))
    for v in out["violations"]:
        print("  - [%s] %s" % (v["probe"], v["what"]))
        for l in v["impl_trace"][:6]:
            print("        " + l)
    print("problems: %d" % len(problems))
    for p in problems:
        print("  - " + p)
    print("wall-clock: %.2f s" % (time.time() - t0))
    known = {s.get("known") for s in summ.values() if s.get("known")}
    unexpected = [v for v in out["violations"] if v["probe"] not in known]
    return 1 if (unexpected or problems) else 0


if __name__ == "__main__":
    sys.exit(main())
