//! Element types with an identity, a drop ledger kept in statics (so that a double drop is recorded
//! instead of corrupting the heap), and the probe around the wrapped iterator.
use crate::sched;
use std::cell::RefCell;
use std::sync::atomic::{AtomicBool, AtomicUsize, Ordering};

const MUL: u64 = 0x9E37_79B9_7F4A_7C15;

fn inv_mul() -> u64 {
    // Newton iteration for the inverse of an odd number modulo 2^64
    let mut x: u64 = MUL;
    for _ in 0..6 {
        x = x.wrapping_mul(2u64.wrapping_sub(MUL.wrapping_mul(x)));
    }
    x
}

/// payload stored for source position `p`: an injective, non-monotone function of the position
pub fn payload(p: u64) -> u64 {
    p.wrapping_add(1).wrapping_mul(MUL)
}

pub fn position(payload: u64) -> u64 {
    payload.wrapping_mul(inv_mul()).wrapping_sub(1)
}

thread_local! {
    /// positions of the original elements destroyed while the current thread was inside an operation
    pub static DROPS: RefCell<Vec<u64>> = const { RefCell::new(Vec::new()) };
}

/// drops performed by the harness itself (the elements it was given) are not recorded
pub static CALLER_PHASE: AtomicBool = AtomicBool::new(false);
pub static CLONES: AtomicUsize = AtomicUsize::new(0);
pub static TOTAL_DROPS: AtomicUsize = AtomicUsize::new(0);

thread_local! {
    pub static CALLER_DROP: std::cell::Cell<bool> = const { std::cell::Cell::new(false) };
}

/// An element with a destructor. `orig` is false for clones.
#[derive(Debug)]
pub struct E {
    pub payload: u64,
    pub orig: bool,
}

impl E {
    pub fn new(p: u64) -> Self {
        E { payload: payload(p), orig: true }
    }
}

/// the k-th clone (0-based) of an element panics
pub static CLONE_CRASH: AtomicUsize = AtomicUsize::new(usize::MAX);

impl Clone for E {
    fn clone(&self) -> Self {
        let k = CLONES.fetch_add(1, Ordering::SeqCst);
        if k == CLONE_CRASH.load(Ordering::SeqCst) {
            panic!("harness: injected closure panic (the clone of an element)");
        }
        E { payload: self.payload, orig: false }
    }
}

impl Drop for E {
    fn drop(&mut self) {
        if !self.orig {
            return;
        }
        TOTAL_DROPS.fetch_add(1, Ordering::SeqCst);
        if CALLER_PHASE.load(Ordering::SeqCst) || CALLER_DROP.with(|c| c.get()) {
            return;
        }
        let p = position(self.payload);
        DROPS.with(|d| d.borrow_mut().push(p));
    }
}

/// drops a value that was delivered to the harness: a drop by the caller, not by the machinery
pub fn caller_drop<T>(x: T) {
    CALLER_DROP.with(|c| c.set(true));
    drop(x);
    CALLER_DROP.with(|c| c.set(false));
}

/// A zero-sized element with a destructor: it has no identity, its drops are only counted (by the caller / by the machinery).
pub static ZCALLER: AtomicUsize = AtomicUsize::new(0);
pub static ZMACH: AtomicUsize = AtomicUsize::new(0);
#[derive(Debug)]
pub struct Z;
impl Drop for Z {
    fn drop(&mut self) {
        if CALLER_PHASE.load(Ordering::SeqCst) || CALLER_DROP.with(|c| c.get()) {
            ZCALLER.fetch_add(1, Ordering::SeqCst);
        } else {
            ZMACH.fetch_add(1, Ordering::SeqCst);
        }
    }
}
impl Val for Z {
    fn value(&self) -> u64 {
        0
    }
}

/// A plain copyable element.
#[derive(Debug, Clone, Copy, PartialEq)]
pub struct P(pub u64);

impl P {
    pub fn new(p: u64) -> Self {
        P(payload(p))
    }
}

/// canonical value of a delivered item: its source position (elements), or the number itself (ranges)
pub trait Val {
    fn value(&self) -> u64;
    /// address of the element a delivered reference points at (references only)
    fn addr(&self) -> Option<usize> {
        None
    }
}
impl Val for E {
    fn value(&self) -> u64 {
        position(self.payload)
    }
}
impl Val for P {
    fn value(&self) -> u64 {
        position(self.0)
    }
}
impl Val for usize {
    fn value(&self) -> u64 {
        *self as u64
    }
}
impl<T: Val> Val for &T {
    fn value(&self) -> u64 {
        (**self).value()
    }
    fn addr(&self) -> Option<usize> {
        Some(*self as *const T as usize)
    }
}

/// number of calls of the wrapped iterator's next() so far, and the call that has to panic
pub static SRC_CALLS: AtomicUsize = AtomicUsize::new(0);
pub static SRC_CRASH: AtomicUsize = AtomicUsize::new(usize::MAX);
/// a source that is not fused: this call of next() (0-based) returns None although elements may remain
pub static SRC_GAP: AtomicUsize = AtomicUsize::new(usize::MAX);
/// an exact size hint that is not truthful: this is added to both bounds of the wrapped iterator's exact hint
pub static SRC_HINT_LIE: std::sync::atomic::AtomicIsize = std::sync::atomic::AtomicIsize::new(0);
/// overlapping executions of the wrapped next()
pub static SRC_INSIDE: AtomicUsize = AtomicUsize::new(0);
pub static SRC_OVERLAP: AtomicUsize = AtomicUsize::new(0);

/// The wrapped sequential iterator: every call of `next` is a scheduling point and is reported.
pub struct Probe<I> {
    pub inner: I,
    pub hint: u8, // 0 exact (forward), 1 inexact, 2 unbounded
}

impl<I: Iterator> Iterator for Probe<I>
where
    I::Item: Val,
{
    type Item = I::Item;

    fn next(&mut self) -> Option<Self::Item> {
        let t = sched::tid();
        if t == usize::MAX {
            // the owner reads the remainder returned by into_seq_iter: not an operation of the crate
            return self.inner.next();
        }
        sched::sched_point();
        if SRC_INSIDE.fetch_add(1, Ordering::SeqCst) != 0 {
            SRC_OVERLAP.fetch_add(1, Ordering::SeqCst);
        }
        let k = SRC_CALLS.fetch_add(1, Ordering::SeqCst);
        if k == SRC_CRASH.load(Ordering::SeqCst) {
            SRC_INSIDE.fetch_sub(1, Ordering::SeqCst);
            sched::record(format!("L {} srcpanic", t));
            panic!("probe: injected panic of the wrapped iterator");
        }
        let r = if k == SRC_GAP.load(Ordering::SeqCst) { None } else { self.inner.next() };
        SRC_INSIDE.fetch_sub(1, Ordering::SeqCst);
        match &r {
            Some(x) => sched::record(format!("L {} src {}", t, x.value())),
            None => sched::record(format!("L {} src -", t)),
        }
        r
    }

    fn size_hint(&self) -> (usize, Option<usize>) {
        // any other method of the wrapped iterator is a use of it as well: when a worker thread calls it
        // (the constructor calls it before the iterator is shared), it is reported as an access
        let t = sched::tid();
        if t != usize::MAX {
            sched::record(format!("L {} srchint", t));
        }
        let (lo, hi) = self.inner.size_hint();
        match self.hint {
            0 => {
                let d = SRC_HINT_LIE.load(Ordering::SeqCst);
                let f = |x: usize| if d >= 0 { x.saturating_add(d as usize) } else { x.saturating_sub(d.unsigned_abs()) };
                (f(lo), hi.map(f))
            }
            1 => (0, hi.map(|h| h + 1)),
            _ => (0, None),
        }
    }
}
