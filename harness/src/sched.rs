//! Deterministic baton scheduler.
//!
//! Real OS threads, one baton.  A thread arriving at a scheduling point (the call point of an
//! operation, an atomic operation of the crate reported by the shim, a call of the wrapped iterator's
//! `next` reported by the probe) gives the baton back and blocks until the scheduler grants it the
//! next step.  Hence exactly one thread runs between two scheduling points, and a step consists of
//! one shared-memory access followed by all the thread-local work up to the next scheduling point:
//! the execution is a function of the schedule.
use std::cell::Cell;
use std::sync::{Condvar, Mutex};

#[derive(Clone, Debug, PartialEq)]
pub enum Mode {
    /// follow the given schedule; afterwards run the remaining threads one at a time, lowest tid first
    Replay,
    /// the harness picks uniformly at random among the parked threads (seeded)
    Random,
}

pub struct St {
    pub mode: Mode,
    pub nthreads: usize,
    pub sched: Vec<usize>,
    pub pos: usize,
    pub turn: Option<usize>,
    pub waiting: Vec<bool>,
    pub started: Vec<bool>,
    pub done: Vec<bool>,
    pub trace: Vec<String>,
    pub chosen: Vec<usize>,
    pub rng: u64,
    pub free_steps: usize,
    pub budget: usize,
    pub abort: bool,
    /// how often thread t was granted a step since the shared state last changed while it is in the waiting loop
    pub sticky: Option<usize>,
    /// adversary of the wait-freedom claim: thread `.0` is frozen once it has taken `.1` steps, for as long as any other
    /// thread has not finished its program
    pub freeze: Option<(usize, usize)>,
    pub steps: Vec<usize>,
    pub counted: usize,
}

pub static ST: Mutex<Option<St>> = Mutex::new(None);
pub static CV: Condvar = Condvar::new();

thread_local! {
    pub static TID: Cell<usize> = const { Cell::new(usize::MAX) };
}

pub struct HangAbort;

pub fn tid() -> usize {
    TID.with(|c| c.get())
}

fn splitmix(s: &mut u64) -> u64 {
    *s = s.wrapping_add(0x9E3779B97F4A7C15);
    let mut z = *s;
    z = (z ^ (z >> 30)).wrapping_mul(0xBF58476D1CE4E5B9);
    z = (z ^ (z >> 27)).wrapping_mul(0x94D049BB133111EB);
    z ^ (z >> 31)
}

pub fn lock() -> std::sync::MutexGuard<'static, Option<St>> {
    match ST.lock() {
        Ok(g) => g,
        Err(p) => p.into_inner(),
    }
}

fn frozen(st: &St, t: usize) -> bool {
    match st.freeze {
        Some((ft, k)) => ft == t && st.steps[t] >= k && (0..st.nthreads).any(|u| u != ft && !st.done[u]),
        None => false,
    }
}

/// chooses the thread that takes the next step, if it can be decided now
fn pick(st: &mut St) {
    pick_inner(st);
    if let Some(t) = st.turn {
        if st.chosen.len() > st.counted {
            st.counted = st.chosen.len();
            st.steps[t] += 1;
        }
    }
}

fn pick_inner(st: &mut St) {
    if st.turn.is_some() {
        return;
    }
    let live_all_arrived = (0..st.nthreads).all(|t| st.done[t] || st.waiting[t]);
    match st.mode {
        Mode::Replay => {
            while st.pos < st.sched.len() {
                let t = st.sched[st.pos];
                if t >= st.nthreads || st.done[t] {
                    st.pos += 1;
                    continue;
                }
                if st.waiting[t] {
                    st.pos += 1;
                    st.turn = Some(t);
                    st.chosen.push(t);
                }
                return; // otherwise t is still on its way to its first scheduling point
            }
            // schedule exhausted: free run, one at a time, lowest tid first
            if !live_all_arrived {
                return;
            }
            if let Some(t) = (0..st.nthreads).find(|&t| !st.done[t] && st.waiting[t] && !frozen(st, t)) {
                // rotate to be fair among waiting threads
                let t = match st.sticky {
                    Some(last) => (1..=st.nthreads)
                        .map(|k| (last + k) % st.nthreads)
                        .find(|&u| !st.done[u] && st.waiting[u] && !frozen(st, u))
                        .unwrap_or(t),
                    None => t,
                };
                st.sticky = Some(t);
                st.free_steps += 1;
                if st.free_steps > st.budget {
                    st.abort = true;
                }
                st.turn = Some(t);
                st.chosen.push(t);
            }
        }
        Mode::Random => {
            if !live_all_arrived {
                return;
            }
            let cands: Vec<usize> = (0..st.nthreads).filter(|&t| !st.done[t] && st.waiting[t] && !frozen(st, t)).collect();
            if cands.is_empty() {
                return;
            }
            // stay on the same thread with probability 1/3, to get runs
            let t = match st.sticky {
                Some(last) if cands.contains(&last) && splitmix(&mut st.rng) % 3 == 0 => last,
                _ => cands[(splitmix(&mut st.rng) % cands.len() as u64) as usize],
            };
            st.sticky = Some(t);
            st.free_steps += 1;
            if st.free_steps > st.budget {
                st.abort = true;
            }
            st.turn = Some(t);
            st.chosen.push(t);
        }
    }
}

/// A scheduling point of the calling thread. Threads that are not registered (the main thread) pass through.
pub fn sched_point() {
    let t = tid();
    if t == usize::MAX {
        return;
    }
    let mut g = lock();
    {
        let st = match g.as_mut() {
            Some(st) => st,
            None => return,
        };
        if t >= st.nthreads {
            return;
        }
        if st.abort && std::thread::panicking() {
            return;
        }
        if st.turn == Some(t) {
            st.turn = None;
        }
        st.waiting[t] = true;
        st.started[t] = true;
        pick(st);
    }
    CV.notify_all();
    loop {
        let st = g.as_mut().unwrap();
        if st.abort {
            st.waiting[t] = false;
            if st.turn == Some(t) {
                st.turn = None;
            }
            drop(g);
            CV.notify_all();
            if std::thread::panicking() {
                return;
            }
            std::panic::resume_unwind(Box::new(HangAbort));
        }
        if st.turn == Some(t) {
            st.waiting[t] = false;
            break;
        }
        g = match CV.wait(g) {
            Ok(g) => g,
            Err(p) => p.into_inner(),
        };
    }
}

/// The calling thread has finished its program.
pub fn finish() {
    let t = tid();
    let mut g = lock();
    if let Some(st) = g.as_mut() {
        if t < st.nthreads {
            st.done[t] = true;
            st.waiting[t] = false;
            if st.turn == Some(t) {
                st.turn = None;
            }
            pick(st);
        }
    }
    drop(g);
    CV.notify_all();
}

pub fn record(line: String) {
    let mut g = lock();
    if let Some(st) = g.as_mut() {
        st.trace.push(line);
    }
}

pub fn install(mode: Mode, nthreads: usize, sched: Vec<usize>, seed: u64, budget: usize, freeze: Option<(usize, usize)>) {
    let mut g = lock();
    *g = Some(St {
        mode,
        nthreads,
        sched,
        pos: 0,
        turn: None,
        waiting: vec![false; nthreads],
        started: vec![false; nthreads],
        done: vec![false; nthreads],
        trace: Vec::new(),
        chosen: Vec::new(),
        rng: seed.wrapping_mul(0x2545F4914F6CDD1D).wrapping_add(17),
        free_steps: 0,
        budget,
        abort: false,
        sticky: None,
        freeze,
        steps: vec![0; nthreads],
        counted: 0,
    });
}

pub fn take() -> Option<St> {
    lock().take()
}
