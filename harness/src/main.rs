//! Correspondence harness: replays cases (source, per-thread programs, end-of-life operation,
//! schedule) on the real crate, built from /repo's working tree with `--cfg orx_concurrent_iter_verif`,
//! and prints the trace in the same text format as the extracted Coq model (ocaml/drv.ml).
mod elems;
mod sched;

/// counting global allocator: live bytes and blocks of the whole process (C15: repeating create / consume / drop must not grow them)
mod counting {
    use std::alloc::{GlobalAlloc, Layout, System};
    use std::sync::atomic::{AtomicIsize, Ordering};
    pub static LIVE_BYTES: AtomicIsize = AtomicIsize::new(0);
    pub static LIVE_BLOCKS: AtomicIsize = AtomicIsize::new(0);
    pub struct Counting;
    unsafe impl GlobalAlloc for Counting {
        unsafe fn alloc(&self, l: Layout) -> *mut u8 {
            let p = System.alloc(l);
            if !p.is_null() {
                LIVE_BYTES.fetch_add(l.size() as isize, Ordering::Relaxed);
                LIVE_BLOCKS.fetch_add(1, Ordering::Relaxed);
            }
            p
        }
        unsafe fn dealloc(&self, p: *mut u8, l: Layout) {
            System.dealloc(p, l);
            LIVE_BYTES.fetch_sub(l.size() as isize, Ordering::Relaxed);
            LIVE_BLOCKS.fetch_sub(1, Ordering::Relaxed);
        }
        unsafe fn alloc_zeroed(&self, l: Layout) -> *mut u8 {
            let p = System.alloc_zeroed(l);
            if !p.is_null() {
                LIVE_BYTES.fetch_add(l.size() as isize, Ordering::Relaxed);
                LIVE_BLOCKS.fetch_add(1, Ordering::Relaxed);
            }
            p
        }
        unsafe fn realloc(&self, p: *mut u8, l: Layout, new_size: usize) -> *mut u8 {
            let q = System.realloc(p, l, new_size);
            if !q.is_null() {
                LIVE_BYTES.fetch_add(new_size as isize - l.size() as isize, Ordering::Relaxed);
            }
            q
        }
    }
    pub fn live() -> (isize, isize) {
        (LIVE_BYTES.load(Ordering::SeqCst), LIVE_BLOCKS.load(Ordering::SeqCst))
    }
    /// the worker threads of a case release their stacks' bookkeeping (thread handle, thread-locals) shortly after
    /// they have been joined: wait until the figures stand still
    pub fn settled() -> (isize, isize) {
        let mut last = live();
        let mut same = 0;
        for _ in 0..400 {
            std::thread::sleep(std::time::Duration::from_micros(50));
            let now = live();
            if now == last {
                same += 1;
                if same >= 4 {
                    break;
                }
            } else {
                same = 0;
                last = now;
            }
        }
        last
    }
}
#[global_allocator]
static GLOBAL: counting::Counting = counting::Counting;

use elems::*;
use orx_concurrent_iter::iter::atomic_iter::AtomicIter;
use orx_concurrent_iter::verif_shim::{self, Kind, Op as AOp, Ty};
use orx_concurrent_iter::*;
use std::cell::{Cell, RefCell};
use std::io::{BufRead, Write};
use std::panic::{catch_unwind, AssertUnwindSafe};
use std::sync::atomic::{AtomicUsize, Ordering};

// ---------------------------------------------------------------- cases

#[derive(Clone, Copy, Debug, PartialEq)]
enum NVar {
    IdVal,
    Val,
    Values,
    IdsValues,
}
#[derive(Clone, Copy, Debug, PartialEq)]
enum LoopK {
    ForEach,
    Enum,
    Fold,
}
#[derive(Clone, Debug)]
enum Op {
    Next(NVar),
    Chunk(u64, u64),
    BufNew(u64),
    BufNext(u64),
    BufDrop,
    Loop(LoopK, u64, Option<u64>),
    Skip,
    Len,
    More,
}
/// an operation of a multi-iterator history: an ordinary operation on iterator j, or cloning it into slot k
#[derive(Clone, Debug)]
enum MOp {
    Op(Op),
    Clone(usize),
}
#[derive(Clone, Debug)]
enum Final {
    None,
    Drop,
    Seq(u64),
}

#[derive(Clone, Debug, Default)]
struct Env {
    kind: String,
    adaptor: String,
    len: u64,
    start: u64,
    end: u64,
    hint: String,
    owning: bool,
    crash: Option<u64>,
    elem: String,
}

#[derive(Clone, Debug)]
struct Case {
    id: String,
    env: Env,
    nthreads: usize,
    progs: Vec<Vec<(Op, String)>>,
    fin: Final,
    fin_tok: String,
    sched: Option<Vec<usize>>,
    seed: u64,
    reps: usize,
    freeze: Option<(usize, usize)>,
    /// multi-iterator history (C19): number of fresh iterators over the one collection; programs carry `@j:` tags
    multi: usize,
    mprogs: Vec<Vec<(usize, MOp, String)>>,
    /// how the harness consumes a chunk: next (default) | nth | skip | last | count | fold | stepby (ledger-only cases)
    chunkstyle: String,
    /// which constructor builds the iterator of a reference-yielding or range source: into (default) | con_iter_vec |
    /// con_iter_array | con_iter_slice | con_iter_range | from
    ctor: String,
    /// a wrapped iterator that is not fused: this call of next() returns None spuriously (checker-only cases)
    gap: Option<u64>,
    hintlie: i64,
    clonecrash: Option<u64>,
}

fn on_parse(s: &str) -> Option<u64> {
    if s == "-" {
        None
    } else {
        Some(s.parse().unwrap())
    }
}

fn op_parse(s: &str) -> Op {
    let p: Vec<&str> = s.split(':').collect();
    match p[0] {
        "next" => Op::Next(match p[1] {
            "idval" => NVar::IdVal,
            "val" => NVar::Val,
            "values" => NVar::Values,
            "idsvalues" => NVar::IdsValues,
            x => panic!("nvar {x}"),
        }),
        "chunk" => Op::Chunk(p[1].parse().unwrap(), p[2].parse().unwrap()),
        "bufnew" => Op::BufNew(p[1].parse().unwrap()),
        "bufnext" => Op::BufNext(p[1].parse().unwrap()),
        "bufdrop" => Op::BufDrop,
        "loop" => Op::Loop(
            match p[1] {
                "foreach" => LoopK::ForEach,
                "enum" => LoopK::Enum,
                "fold" => LoopK::Fold,
                x => panic!("loopk {x}"),
            },
            p[2].parse().unwrap(),
            on_parse(p[3]),
        ),
        "skip" => Op::Skip,
        "len" => Op::Len,
        "more" => Op::More,
        x => panic!("op {x}"),
    }
}

fn read_cases(input: &mut dyn BufRead) -> Vec<Case> {
    let mut cases = vec![];
    let mut cur: Option<Case> = None;
    for line in input.lines() {
        let line = line.unwrap();
        let w: Vec<&str> = line.split_whitespace().collect();
        if w.is_empty() {
            continue;
        }
        match w[0] {
            "case" => {
                cur = Some(Case {
                    id: w[1].to_string(),
                    env: Env::default(),
                    nthreads: 0,
                    progs: vec![],
                    fin: Final::None,
                    fin_tok: "none".into(),
                    sched: None,
                    seed: 0,
                    reps: 1,
                    freeze: None,
                    multi: 0,
                    mprogs: vec![],
                    chunkstyle: String::new(),
                    ctor: String::new(),
                    gap: None,
                    hintlie: 0,
                    clonecrash: None,
                })
            }
            "env" => {
                let c = cur.as_mut().unwrap();
                for kv in &w[1..] {
                    let (k, v) = kv.split_once('=').unwrap();
                    match k {
                        "kind" => c.env.kind = v.into(),
                        "adaptor" => c.env.adaptor = v.into(),
                        "len" => c.env.len = v.parse().unwrap(),
                        "start" => c.env.start = v.parse().unwrap(),
                        "end" => c.env.end = v.parse().unwrap(),
                        "hint" => c.env.hint = v.into(),
                        "owning" => c.env.owning = v == "1",
                        "crash" => c.env.crash = on_parse(v),
                        _ => {}
                    }
                }
            }
            "threads" => {
                let c = cur.as_mut().unwrap();
                c.nthreads = w[1].parse().unwrap();
                c.progs = vec![vec![]; c.nthreads];
            }
            "prog" => {
                let c = cur.as_mut().unwrap();
                let t: usize = w[1].parse().unwrap();
                c.progs[t] = w[2..].iter().map(|s| (op_parse(s), s.to_string())).collect();
            }
            "final" => {
                let c = cur.as_mut().unwrap();
                c.fin_tok = w[1].to_string();
                c.fin = match w[1].split(':').collect::<Vec<_>>()[..] {
                    ["drop"] => Final::Drop,
                    ["seq", k] => Final::Seq(k.parse().unwrap()),
                    _ => Final::None,
                };
            }
            "seed" => cur.as_mut().unwrap().seed = w[1].parse().unwrap(),
            "reps" => cur.as_mut().unwrap().reps = w[1].parse().unwrap(),
            "freeze" => cur.as_mut().unwrap().freeze = Some((w[1].parse().unwrap(), w[2].parse().unwrap())),
            "elem" => cur.as_mut().unwrap().env.elem = w[1].to_string(),
            "chunkstyle" => cur.as_mut().unwrap().chunkstyle = w[1].to_string(),
            "ctor" => cur.as_mut().unwrap().ctor = w[1].to_string(),
            "gap" => cur.as_mut().unwrap().gap = on_parse(w[1]),
            "hintlie" => cur.as_mut().unwrap().hintlie = w[1].parse().unwrap(),
            "clonecrash" => cur.as_mut().unwrap().clonecrash = on_parse(w[1]),
            "multi" => {
                let c = cur.as_mut().unwrap();
                c.multi = w[1].parse().unwrap();
                c.mprogs = vec![vec![]; c.nthreads];
            }
            "mprog" => {
                let c = cur.as_mut().unwrap();
                let t: usize = w[1].parse().unwrap();
                c.mprogs[t] = w[2..]
                    .iter()
                    .map(|s| {
                        let (tag, rest) = s.split_once(':').unwrap();
                        let j: usize = tag.trim_start_matches('@').parse().unwrap();
                        let p: Vec<&str> = rest.split(':').collect();
                        if p[0] == "clone" {
                            (j, MOp::Clone(p[1].parse().unwrap()), rest.to_string())
                        } else {
                            (j, MOp::Op(op_parse(rest)), rest.to_string())
                        }
                    })
                    .collect();
            }
            "sched" => {
                let c = cur.as_mut().unwrap();
                c.sched = match w[1] {
                    "-" => None,
                    "." => Some(vec![]),
                    s => Some(s.split(',').map(|x| x.parse().unwrap()).collect()),
                };
            }
            "end" => cases.push(cur.take().unwrap()),
            _ => {}
        }
    }
    cases
}

// ---------------------------------------------------------------- results

fn ou(o: Option<u64>) -> String {
    match o {
        Some(x) => x.to_string(),
        None => "-".into(),
    }
}

/// maximal compression of delivered (index, value) pairs into runs idx/val/cnt
fn runs(items: &[(Option<u64>, u64)]) -> String {
    let mut out: Vec<(Option<u64>, u64, u64)> = vec![];
    for &(i, v) in items {
        if let Some(last) = out.last_mut() {
            let cont_v = v == last.1.wrapping_add(last.2);
            let cont_i = match (last.0, i) {
                (Some(a), Some(b)) => b == a.wrapping_add(last.2),
                (None, None) => true,
                _ => false,
            };
            if cont_v && cont_i {
                last.2 += 1;
                continue;
            }
        }
        out.push((i, v, 1));
    }
    if out.is_empty() {
        return "-".into();
    }
    out.iter().map(|r| format!("{}/{}/{}", ou(r.0), r.1, r.2)).collect::<Vec<_>>().join(",")
}

/// maximal compression of dropped positions (in the order they were dropped) into lo/cnt
fn drops_str(d: &[u64]) -> String {
    let mut out: Vec<(u64, u64)> = vec![];
    for &p in d {
        if let Some(last) = out.last_mut() {
            if p == last.0 + last.1 {
                last.1 += 1;
                continue;
            }
        }
        out.push((p, 1));
    }
    if out.is_empty() {
        return "-".into();
    }
    out.iter().map(|r| format!("{}/{}", r.0, r.1)).collect::<Vec<_>>().join(",")
}

fn take_drops() -> Vec<u64> {
    DROPS.with(|d| std::mem::take(&mut *d.borrow_mut()))
}

fn panic_kind(p: &Box<dyn std::any::Any + Send>) -> String {
    let msg: String = if let Some(s) = p.downcast_ref::<&str>() {
        s.to_string()
    } else if let Some(s) = p.downcast_ref::<String>() {
        s.clone()
    } else {
        "?".into()
    };
    if msg.contains("with overflow") {
        "overflow".into()
    } else if msg.contains("Chunk size must be positive") {
        "chunkzero".into()
    } else if msg.contains("probe: injected panic") {
        "source".into()
    } else if msg.contains("harness: injected closure panic") {
        "user".into()
    } else if msg.contains("assertion") {
        "assert".into()
    } else if msg.contains("out of bounds") || msg.contains("out of range") || msg.contains("`at` split index") {
        "index".into()
    } else {
        format!("other<{}>", msg.replace(' ', "_").replace(':', "."))
    }
}

// ---------------------------------------------------------------- shim glue

static STYLE: std::sync::Mutex<String> = std::sync::Mutex::new(String::new());
static C_ADDR: AtomicUsize = AtomicUsize::new(0);
/// multi-iterator histories: every recorded line is tagged with the iterator the thread is operating on
static MULTI: std::sync::atomic::AtomicBool = std::sync::atomic::AtomicBool::new(false);
thread_local! {
    static CUR_ITER: Cell<usize> = const { Cell::new(0) };
    static IN_CLONE: Cell<bool> = const { Cell::new(false) };
    /// address of the position counter of the iterator that is being cloned
    static ORIG_ADDR: Cell<usize> = const { Cell::new(0) };
}
fn mrecord(line: String) {
    if MULTI.load(Ordering::SeqCst) {
        let j = CUR_ITER.with(|c| c.get());
        sched::record(format!("#{} {}", j, line));
    } else {
        sched::record(line);
    }
}
static MAIN_TID: AtomicUsize = AtomicUsize::new(0);

fn before(_op: &AOp) {
    sched::sched_point();
}

fn after(op: &AOp, r: usize) {
    let t = match sched::tid() {
        usize::MAX => MAIN_TID.load(Ordering::SeqCst),
        t => t,
    };
    let site = match op.ty {
        Ty::Bool => "F",
        Ty::Usize => {
            // the end-of-life operation moves the iterator (its address changes), and only ever touches the position counter
            if sched::tid() == usize::MAX || op.addr == C_ADDR.load(Ordering::SeqCst) {
                "C"
            } else {
                "Y"
            }
        }
    };
    let kind = match op.kind {
        Kind::Load => "load",
        Kind::Store => "store",
        Kind::FetchAdd => "add",
        Kind::FetchSub => "sub",
        Kind::Swap => "swap",
        Kind::CompareExchange => "cas",
        Kind::FetchUpdate => "update",
        Kind::FetchMax => "max",
        Kind::FetchMin => "min",
        Kind::FetchOr => "or",
        Kind::FetchAnd => "and",
    };
    if MULTI.load(Ordering::SeqCst) {
        // one counter per iterator (slices and ranges); the accesses of a clone() are reported apart
        if IN_CLONE.with(|c| c.get()) {
            // C: the counter of the original; N: any other counter (the one of the clone under construction)
            let which = if op.addr == ORIG_ADDR.with(|c| c.get()) { "C" } else { "N" };
            mrecord(format!("K {} atom {} {} {} {} {:?}", t, which, kind, op.arg, r, op.ord));
        } else {
            mrecord(format!("L {} atom C {} {} {} {:?}", t, kind, op.arg, r, op.ord));
        }
        return;
    }
    sched::record(format!("L {} atom {} {} {} {} {:?}", t, site, kind, op.arg, r, op.ord));
}

// ---------------------------------------------------------------- driving one case


const HANG: &str = "hang";

thread_local! {
    static CHUNK_STYLE: RefCell<String> = const { RefCell::new(String::new()) };
}

/// takes elements out of a chunk the way the case says: the first `k` with next() (what the model describes), or
/// through one of the other methods of Iterator (ledger-only cases: every element not handed to the caller must
/// still be destroyed exactly once)
fn consume<T: Val, V: ExactSizeIterator<Item = T>>(mut values: V, b: u64, k: u64, kept: &mut Vec<T>) -> (Vec<(Option<u64>, u64)>, usize) {
    let style = CHUNK_STYLE.with(|c| c.borrow().clone());
    let mut taken = vec![];
    let n = values.len() as u64;
    match style.as_str() {
        "nth" => {
            if let Some(x) = values.nth(k as usize) {
                taken.push((Some(b.wrapping_add(k)), x.value()));
                kept.push(x);
            }
        }
        "skip" => {
            let mut s = values.skip(k as usize);
            if let Some(x) = s.next() {
                taken.push((Some(b.wrapping_add(k)), x.value()));
                kept.push(x);
            }
            drop(s);
            return (taken, 0);
        }
        "last" => {
            if let Some(x) = values.last() {
                taken.push((Some(b.wrapping_add(n - 1)), x.value()));
                kept.push(x);
            }
            return (taken, 0);
        }
        "count" => {
            let _ = values.count();
            return (taken, 0);
        }
        "fold" => {
            let mut i = 0u64;
            values.fold((), |_, x| {
                taken.push((Some(b.wrapping_add(i)), x.value()));
                kept.push(x);
                i += 1;
            });
            return (taken, 0);
        }
        "nextnth" => {
            // a partly consumed chunk, then a jump that may go beyond what is left
            if let Some(x) = values.next() {
                taken.push((Some(b), x.value()));
                kept.push(x);
                if let Some(y) = values.nth(k as usize) {
                    taken.push((Some(b.wrapping_add(k + 1)), y.value()));
                    kept.push(y);
                }
            }
        }
        "nextskip" => {
            if let Some(x) = values.next() {
                taken.push((Some(b), x.value()));
                kept.push(x);
                let mut s = values.skip(k as usize);
                if let Some(y) = s.next() {
                    taken.push((Some(b.wrapping_add(k + 1)), y.value()));
                    kept.push(y);
                }
                drop(s);
            }
            return (taken, 0);
        }
        "nextstep" => {
            if let Some(x) = values.next() {
                taken.push((Some(b), x.value()));
                kept.push(x);
                let mut i = 1u64;
                for y in values.step_by(3) {
                    taken.push((Some(b.wrapping_add(i)), y.value()));
                    kept.push(y);
                    i += 3;
                }
            }
            return (taken, 0);
        }
        "nextfold" => {
            // a partly consumed chunk, then internal iteration over the rest
            if let Some(x) = values.next() {
                taken.push((Some(b), x.value()));
                kept.push(x);
                let mut i = 1u64;
                values.fold((), |_, y| {
                    taken.push((Some(b.wrapping_add(i)), y.value()));
                    kept.push(y);
                    i += 1;
                });
            }
            return (taken, 0);
        }
        "foldpanic" => {
            // internal iteration of the chunk by a closure that panics at its k-th element, which it owns by then
            let mut i = 0u64;
            let r = std::panic::catch_unwind(std::panic::AssertUnwindSafe(|| {
                values.fold((), |_, x| {
                    taken.push((Some(b.wrapping_add(i)), x.value()));
                    kept.push(x);
                    if i == k {
                        panic!("probe: injected panic of a closure that folds a chunk");
                    }
                    i += 1;
                })
            }));
            let _ = r;
            return (taken, 0);
        }
        "stepby" => {
            let mut i = 0u64;
            for x in values.step_by(2) {
                taken.push((Some(b.wrapping_add(i)), x.value()));
                kept.push(x);
                i += 2;
            }
            return (taken, 0);
        }
        _ => {
            let mut i = 0u64;
            while i < k {
                match values.next() {
                    Some(x) => {
                        taken.push((Some(b.wrapping_add(i)), x.value()));
                        kept.push(x);
                    }
                    None => break,
                }
                i += 1;
            }
        }
    }
    let ann1 = values.len();
    drop(values);
    (taken, ann1)
}

/// runs the program of thread `t` on the shared iterator
fn thread_body<I>(it: &I, prog: &[(Op, String)], t: usize)
where
    I: ConcurrentIter,
    I::Item: Val,
{
    sched::TID.with(|c| c.set(t));
    CHUNK_STYLE.with(|c| *c.borrow_mut() = STYLE.lock().unwrap().clone());
    let mut buf = None; // the thread's buffered iterator (its type cannot be named outside the crate)
    let mut kept: Vec<I::Item> = Vec::with_capacity(64);
    let acc: RefCell<Vec<(Option<u64>, u64)>> = RefCell::new(Vec::new());
    let mut hung = false;

    for (op, tok) in prog {
        // the call point
        let r0 = catch_unwind(AssertUnwindSafe(|| sched::sched_point()));
        if r0.is_err() {
            hung = true;
            break;
        }
        sched::record(format!("L {} call", t));
        sched::record(format!("E {} call {}", t, tok));
        let _ = take_drops();
        acc.borrow_mut().clear();

        let r = catch_unwind(AssertUnwindSafe(|| -> String {
            match op {
                Op::Next(v) => {
                    let r: Option<(Option<u64>, I::Item)> = match v {
                        NVar::IdVal => it.next_id_and_value().map(|x| (Some(x.idx as u64), x.value)),
                        NVar::Val => it.next().map(|x| (None, x)),
                        // the for-loop wrappers driven through the other methods of Iterator (style streams only)
                        NVar::Values => match CHUNK_STYLE.with(|c| c.borrow().clone()).as_str() {
                            "wnth" => it.values().nth(1).map(|x| (None, x)),
                            "wskip" => it.values().skip(2).next().map(|x| (None, x)),
                            "wstep" => it.values().step_by(3).nth(1).map(|x| (None, x)),
                            _ => it.values().next().map(|x| (None, x)),
                        },
                        NVar::IdsValues => match CHUNK_STYLE.with(|c| c.borrow().clone()).as_str() {
                            "wnth" => it.ids_and_values().nth(1).map(|(i, x)| (Some(i as u64), x)),
                            "wskip" => it.ids_and_values().skip(2).next().map(|(i, x)| (Some(i as u64), x)),
                            "wstep" => it.ids_and_values().step_by(3).nth(1).map(|(i, x)| (Some(i as u64), x)),
                            _ => it.ids_and_values().next().map(|(i, x)| (Some(i as u64), x)),
                        },
                    };
                    match r {
                        None => "none".into(),
                        Some((i, x)) => {
                            let v = x.value();
                            kept.push(x);
                            format!("one:{}/{}/1", ou(i), v)
                        }
                    }
                }
                Op::Chunk(n, k) => match it.next_chunk(*n as usize) {
                    None => "none".into(),
                    Some(chunk) => {
                        let b = chunk.begin_idx as u64;
                        let values = chunk.values;
                        let ann0 = values.len();
                        let (taken, ann1) = consume(values, b, *k, &mut kept);
                        format!("chunk:{}:{}:{}:{}:{}", b, runs(&taken), ann0, taken.len(), ann1)
                    }
                },
                Op::BufNew(c) => {
                    let old = buf.take();
                    drop(old);
                    buf = Some(it.buffered_iter(*c as usize));
                    "unit".into()
                }
                Op::BufNext(k) => match buf.as_mut() {
                    None => "panic:assert:-".into(),
                    Some(bi) => match bi.next() {
                        None => "none".into(),
                        Some(chunk) => {
                            let b = chunk.begin_idx as u64;
                            let values = chunk.values;
                            let ann0 = values.len();
                            let (taken, ann1) = consume(values, b, *k, &mut kept);
                            format!("chunk:{}:{}:{}:{}:{}", b, runs(&taken), ann0, taken.len(), ann1)
                        }
                    },
                },
                Op::BufDrop => {
                    let old = buf.take();
                    drop(old);
                    "unit".into()
                }
                Op::Loop(l, c, crash) => {
                    let count = Cell::new(0u64);
                    let mut visit = |i: Option<u64>, x: I::Item| {
                        let k = count.get();
                        count.set(k + 1);
                        acc.borrow_mut().push((i, x.value()));
                        if Some(k) == *crash {
                            caller_drop(x);
                            panic!("harness: injected closure panic");
                        }
                        kept.push(x);
                    };
                    match l {
                        LoopK::ForEach => it.for_each(*c as usize, |x| visit(None, x)),
                        LoopK::Enum => it.enumerate_for_each(*c as usize, |i, x| visit(Some(i as u64), x)),
                        LoopK::Fold => {
                            let n = it.fold(*c as usize, 0u64, |a, x| {
                                visit(None, x);
                                a + 1
                            });
                            assert_eq!(n, count.get(), "harness: fold result");
                        }
                    }
                    format!("loop:{}", runs(&acc.borrow()))
                }
                Op::Skip => {
                    it.skip_to_end();
                    "unit".into()
                }
                Op::Len => format!("len:{}", ou(it.try_get_len().map(|x| x as u64))),
                Op::More => match it.has_more() {
                    HasMore::Yes(n) => format!("more:yes:{}", n),
                    HasMore::Maybe => "more:maybe".into(),
                    HasMore::No => "more:no".into(),
                },
            }
        }));
        match r {
            Ok(res) => sched::record(format!("E {} ret {} | {}", t, res, drops_str(&take_drops()))),
            Err(p) => {
                if p.downcast_ref::<sched::HangAbort>().is_some() {
                    sched::record(format!("E {} ret {} | {}", t, HANG, drops_str(&take_drops())));
                    hung = true;
                    break;
                }
                let k = panic_kind(&p);
                sched::record(format!("E {} ret panic:{}:{} | {}", t, k, runs(&acc.borrow()), drops_str(&take_drops())));
            }
        }
    }
    // whatever the thread still holds is dropped by the caller, outside any operation
    let _ = hung;
    let r = catch_unwind(AssertUnwindSafe(|| {
        let b = buf.take();
        drop(b);
    }));
    let _ = r;
    let leftover = take_drops();
    if !leftover.is_empty() {
        sched::record(format!("E {} leftover {}", t, drops_str(&leftover)));
    }
    caller_drop(kept);
    sched::finish();
}

/// runs the case on the given concurrent iterator; returns the trace
fn drive<I>(case: &Case, it: I) -> Vec<String>
where
    I: ConcurrentIter + AtomicIter<<I as ConcurrentIter>::Item>,
    I::Item: Val,
{
    C_ADDR.store(<I as AtomicIter<I::Item>>::counter(&it) as *const _ as usize, Ordering::SeqCst);
    MAIN_TID.store(case.nthreads, Ordering::SeqCst);
    let (mode, sched_v) = match &case.sched {
        Some(s) => (sched::Mode::Replay, s.clone()),
        None => (sched::Mode::Random, vec![]),
    };
    sched::install(mode, case.nthreads, sched_v, case.seed, 4000, case.freeze);
    {
        let it = &it;
        std::thread::scope(|s| {
            for t in 0..case.nthreads {
                let prog = &case.progs[t];
                s.spawn(move || thread_body(it, prog, t));
            }
        });
    }
    // end of life, by the exclusive owner
    let complete = {
        let g = sched::lock();
        let st = g.as_ref().unwrap();
        !st.abort
    };
    sched::record(format!("complete {}", if complete { 1 } else { 0 }));
    let _ = take_drops();
    if complete {
        let fin = case.fin.clone();
        let r = catch_unwind(AssertUnwindSafe(move || -> Option<String> {
            match fin {
                Final::None => {
                    std::mem::forget(it);
                    None
                }
                Final::Drop => {
                    drop(it);
                    Some("unit".into())
                }
                Final::Seq(k) => {
                    let mut s = it.into_seq_iter();
                    let mut taken = vec![];
                    let mut kept = vec![];
                    let mut i = 0;
                    while i < k {
                        match s.next() {
                            Some(x) => {
                                taken.push((None, x.value()));
                                kept.push(x);
                            }
                            None => break,
                        }
                        i += 1;
                    }
                    drop(s);
                    let r = format!("seq:{}:{}", runs(&taken), taken.len());
                    caller_drop(kept);
                    Some(r)
                }
            }
        }));
        match r {
            Ok(Some(res)) => sched::record(format!("E final {} {} | {}", case.fin_tok, res, drops_str(&take_drops()))),
            Ok(None) => {}
            Err(p) => sched::record(format!(
                "E final {} panic:{}:- | {}",
                case.fin_tok,
                panic_kind(&p),
                drops_str(&take_drops())
            )),
        }
    } else {
        std::mem::forget(it);
    }
    let st = sched::take().unwrap();
    let mut out = vec![format!("case {}", case.id)];
    out.push(format!(
        "sched {}",
        if st.chosen.is_empty() { ".".to_string() } else { st.chosen.iter().map(|x| x.to_string()).collect::<Vec<_>>().join(",") }
    ));
    out.extend(st.trace);
    out.push("end".into());
    out
}

/// address and size of the elements of the collection the references must point into (C19)
static BASE_ADDR: AtomicUsize = AtomicUsize::new(0);
static ELEM_SIZE: AtomicUsize = AtomicUsize::new(0);

fn check_addr<T: Val>(x: &T) {
    if let Some(a) = x.addr() {
        let base = BASE_ADDR.load(Ordering::SeqCst);
        let sz = ELEM_SIZE.load(Ordering::SeqCst);
        if sz != 0 && a != base.wrapping_add(sz.wrapping_mul(x.value() as usize)) {
            mrecord(format!("X reference-not-into-collection value={} addr_offset={}", x.value(), a.wrapping_sub(base)));
        }
    }
}

/// the program of thread `t` in a multi-iterator history
fn thread_body_multi<I>(its: &[std::sync::OnceLock<I>], prog: &[(usize, MOp, String)], t: usize)
where
    I: ConcurrentIter + Clone + AtomicIter<<I as ConcurrentIter>::Item>,
    I::Item: Val,
{
    sched::TID.with(|c| c.set(t));
    let mut kept: Vec<I::Item> = Vec::with_capacity(64);
    let acc: RefCell<Vec<(Option<u64>, u64)>> = RefCell::new(Vec::new());
    for (j, mop, tok) in prog {
        CUR_ITER.with(|c| c.set(*j));
        let it = match its[*j].get() {
            Some(it) => it,
            None => continue,
        };
        let r0 = catch_unwind(AssertUnwindSafe(|| sched::sched_point()));
        if r0.is_err() {
            break;
        }
        match mop {
            MOp::Clone(k) => {
                // not an operation of the single-iterator model: reported apart (K lines)
                mrecord(format!("K {} clone {}", t, k));
                ORIG_ADDR.with(|c| c.set(<I as AtomicIter<I::Item>>::counter(it) as *const _ as usize));
                IN_CLONE.with(|c| c.set(true));
                let r = catch_unwind(AssertUnwindSafe(|| {
                    let cl = it.clone();
                    // the position the clone starts at (read by the harness; the clone is not shared yet)
                    let start = <I as AtomicIter<I::Item>>::counter(&cl).current();
                    (cl, start)
                }));
                IN_CLONE.with(|c| c.set(false));
                match r {
                    Ok((cl, start)) => {
                        let _ = its[*k].set(cl);
                        mrecord(format!("K {} cloned {} start={}", t, k, start));
                    }
                    Err(_) => mrecord(format!("K {} clone-panicked {}", t, k)),
                }
                continue;
            }
            MOp::Op(op) => {
                mrecord(format!("L {} call", t));
                mrecord(format!("E {} call {}", t, tok));
                acc.borrow_mut().clear();
                let r = catch_unwind(AssertUnwindSafe(|| -> String {
                    match op {
                        Op::Next(v) => {
                            let r: Option<(Option<u64>, I::Item)> = match v {
                                NVar::IdVal => it.next_id_and_value().map(|x| (Some(x.idx as u64), x.value)),
                                NVar::Val => it.next().map(|x| (None, x)),
                                NVar::Values => it.values().next().map(|x| (None, x)),
                                NVar::IdsValues => it.ids_and_values().next().map(|(i, x)| (Some(i as u64), x)),
                            };
                            match r {
                                None => "none".into(),
                                Some((i, x)) => {
                                    check_addr(&x);
                                    let v = x.value();
                                    kept.push(x);
                                    format!("one:{}/{}/1", ou(i), v)
                                }
                            }
                        }
                        Op::Chunk(n, k) => match it.next_chunk(*n as usize) {
                            None => "none".into(),
                            Some(chunk) => {
                                let b = chunk.begin_idx as u64;
                                let mut values = chunk.values;
                                let ann0 = values.len();
                                let mut taken = vec![];
                                let mut i = 0u64;
                                while i < *k {
                                    match values.next() {
                                        Some(x) => {
                                            check_addr(&x);
                                            taken.push((Some(b.wrapping_add(i)), x.value()));
                                            kept.push(x);
                                        }
                                        None => break,
                                    }
                                    i += 1;
                                }
                                let ann1 = values.len();
                                drop(values);
                                format!("chunk:{}:{}:{}:{}:{}", b, runs(&taken), ann0, taken.len(), ann1)
                            }
                        },
                        Op::Loop(l, c, _) => {
                            let mut visit = |i: Option<u64>, x: I::Item| {
                                check_addr(&x);
                                acc.borrow_mut().push((i, x.value()));
                                kept.push(x);
                            };
                            match l {
                                LoopK::ForEach => it.for_each(*c as usize, |x| visit(None, x)),
                                LoopK::Enum => it.enumerate_for_each(*c as usize, |i, x| visit(Some(i as u64), x)),
                                LoopK::Fold => {
                                    let _ = it.fold(*c as usize, 0u64, |a, x| {
                                        visit(None, x);
                                        a + 1
                                    });
                                }
                            }
                            format!("loop:{}", runs(&acc.borrow()))
                        }
                        Op::Skip => {
                            it.skip_to_end();
                            "unit".into()
                        }
                        Op::Len => format!("len:{}", ou(it.try_get_len().map(|x| x as u64))),
                        Op::More => match it.has_more() {
                            HasMore::Yes(n) => format!("more:yes:{}", n),
                            HasMore::Maybe => "more:maybe".into(),
                            HasMore::No => "more:no".into(),
                        },
                        _ => "unsupported".into(),
                    }
                }));
                match r {
                    Ok(res) => mrecord(format!("E {} ret {} | {}", t, res, drops_str(&take_drops()))),
                    Err(p) => {
                        if p.downcast_ref::<sched::HangAbort>().is_some() {
                            mrecord(format!("E {} ret {} | -", t, HANG));
                            break;
                        }
                        let k = panic_kind(&p);
                        mrecord(format!("E {} ret panic:{}:{} | {}", t, k, runs(&acc.borrow()), drops_str(&take_drops())));
                    }
                }
            }
        }
    }
    caller_drop(kept);
    sched::finish();
}

/// runs a multi-iterator history: `case.multi` fresh iterators made by `mk`, clones created by the programs
fn drive_multi<I>(case: &Case, mk: &dyn Fn() -> I) -> Vec<String>
where
    I: ConcurrentIter + Clone + AtomicIter<<I as ConcurrentIter>::Item>,
    I::Item: Val,
{
    let slots = case
        .mprogs
        .iter()
        .flat_map(|p| p.iter())
        .map(|(j, m, _)| match m {
            MOp::Clone(k) => (*j).max(*k) + 1,
            _ => *j + 1,
        })
        .max()
        .unwrap_or(0)
        .max(case.multi);
    let its: Vec<std::sync::OnceLock<I>> = (0..slots).map(|_| std::sync::OnceLock::new()).collect();
    for j in 0..case.multi {
        let _ = its[j].set(mk());
    }
    MULTI.store(true, Ordering::SeqCst);
    MAIN_TID.store(case.nthreads, Ordering::SeqCst);
    let (mode, sched_v) = match &case.sched {
        Some(s) => (sched::Mode::Replay, s.clone()),
        None => (sched::Mode::Random, vec![]),
    };
    sched::install(mode, case.nthreads, sched_v, case.seed, 4000, None);
    {
        let its = &its;
        std::thread::scope(|s| {
            for t in 0..case.nthreads {
                let prog = &case.mprogs[t];
                s.spawn(move || thread_body_multi(its, prog, t));
            }
        });
    }
    let complete = {
        let g = sched::lock();
        !g.as_ref().unwrap().abort
    };
    drop(its);
    MULTI.store(false, Ordering::SeqCst);
    let st = sched::take().unwrap();
    let mut out = vec![format!("case {}", case.id)];
    out.push(format!(
        "sched {}",
        if st.chosen.is_empty() { ".".to_string() } else { st.chosen.iter().map(|x| x.to_string()).collect::<Vec<_>>().join(",") }
    ));
    out.extend(st.trace);
    out.push(format!("complete {}", if complete { 1 } else { 0 }));
    out.push("end".into());
    out
}

fn run_case_multi(case: &Case) -> Vec<String> {
    let env = &case.env;
    let len = env.len;
    match env.kind.as_str() {
        "slice" => {
            let v: Vec<E> = (0..len).map(E::new).collect();
            BASE_ADDR.store(v.as_ptr() as usize, Ordering::SeqCst);
            ELEM_SIZE.store(std::mem::size_of::<E>(), Ordering::SeqCst);
            let sl = v.as_slice();
            let mut out = drive_multi(case, &|| sl.into_con_iter());
            ELEM_SIZE.store(0, Ordering::SeqCst);
            // the collection is unmodified and fully usable afterwards
            let intact = v.len() as u64 == len && v.iter().enumerate().all(|(i, x)| x.orig && x.payload == payload(i as u64));
            let n = out.len();
            out.insert(n - 1, format!("S intact={} clones={} drops={}", if intact { 1 } else { 0 }, CLONES.load(Ordering::SeqCst), TOTAL_DROPS.load(Ordering::SeqCst)));
            CALLER_PHASE.store(true, Ordering::SeqCst);
            drop(v);
            CALLER_PHASE.store(false, Ordering::SeqCst);
            out
        }
        "range" => {
            let r = (env.start as usize)..(env.end as usize);
            drive_multi(case, &|| IntoConcurrentIter::into_con_iter(r.clone()))
        }
        k => vec![format!("case {}", case.id), format!("unsupported kind {} for a multi-iterator history", k), "end".into()],
    }
}

macro_rules! array_con_iter_case {
    ($case:expr, $($n:literal),*) => {
        match $case.env.len {
            $( $n => {
                let a: [E; $n] = std::array::from_fn(|i| E::new(i as u64));
                let out = drive($case, a.con_iter());
                CALLER_PHASE.store(true, Ordering::SeqCst);
                drop(a);
                out
            } )*
            n => vec![format!("case {}", $case.id), format!("unsupported array length {}", n), "end".into()],
        }
    };
}

macro_rules! array_case {
    ($case:expr, $($n:literal),*) => {
        match $case.env.len {
            $( $n => { let a: [E; $n] = std::array::from_fn(|i| E::new(i as u64)); drive($case, a.into_con_iter()) } )*
            n => vec![format!("case {}", $case.id), format!("unsupported array length {}", n), "end".into()],
        }
    };
}

macro_rules! zarray_case {
    ($case:expr, $($n:literal),*) => {
        match $case.env.len {
            $( $n => { let a: [Z; $n] = std::array::from_fn(|_| Z); drive($case, a.into_con_iter()) } )*
            n => vec![format!("case {}", $case.id), format!("unsupported array length {}", n), "end".into()],
        }
    };
}

/// zero-sized elements with a destructor: only the numbers of drops can be observed
fn run_case_zst(case: &Case) -> Vec<String> {
    let env = &case.env;
    let len = env.len;
    ZCALLER.store(0, Ordering::SeqCst);
    ZMACH.store(0, Ordering::SeqCst);
    let hint = match env.hint.as_str() {
        "exact" => 0u8,
        "inexact" => 1,
        _ => 2,
    };
    let mut out = match env.kind.as_str() {
        "vec" => {
            let v: Vec<Z> = (0..len).map(|_| Z).collect();
            drive(case, v.into_con_iter())
        }
        "array" => zarray_case!(case, 0, 1, 2, 3, 4, 5, 6, 7, 8, 9, 10, 11, 12),
        "iter" => {
            let v: Vec<Z> = (0..len).map(|_| Z).collect();
            drive(case, Probe { inner: v.into_iter(), hint }.into_con_iter())
        }
        k => vec![format!("case {}", case.id), format!("unsupported kind {} for zero-sized elements", k), "end".into()],
    };
    let line = format!("Z caller={} machinery={} len={}", ZCALLER.load(Ordering::SeqCst), ZMACH.load(Ordering::SeqCst), len);
    let n = out.len();
    out.insert(n - 1, line);
    out
}

fn run_case(case: &Case) -> Vec<String> {
    *STYLE.lock().unwrap() = case.chunkstyle.clone();
    SRC_CALLS.store(0, Ordering::SeqCst);
    SRC_CRASH.store(case.env.crash.map(|x| x as usize).unwrap_or(usize::MAX), Ordering::SeqCst);
    SRC_GAP.store(case.gap.map(|x| x as usize).unwrap_or(usize::MAX), Ordering::SeqCst);
    SRC_HINT_LIE.store(case.hintlie as isize, Ordering::SeqCst);
    CLONE_CRASH.store(case.clonecrash.map(|x| x as usize).unwrap_or(usize::MAX), Ordering::SeqCst);
    CLONES.store(0, Ordering::SeqCst);
    CALLER_PHASE.store(false, Ordering::SeqCst);
    let env = &case.env;
    if case.multi > 0 {
        CLONES.store(0, Ordering::SeqCst);
        TOTAL_DROPS.store(0, Ordering::SeqCst);
        return run_case_multi(case);
    }
    if env.elem == "zst" {
        return run_case_zst(case);
    }
    let len = env.len;
    let hint = match env.hint.as_str() {
        "exact" => 0u8,
        "inexact" => 1,
        _ => 2,
    };
    let out = match (env.kind.as_str(), env.adaptor.as_str()) {
        ("slice", "none") if case.ctor == "con_iter_array" => array_con_iter_case!(case, 0, 1, 2, 3, 4, 5, 6, 7, 8, 9, 10, 11, 12),
        ("slice", "none") => {
            let v: Vec<E> = (0..len).map(E::new).collect();
            let out = match case.ctor.as_str() {
                "con_iter_vec" => drive(case, v.con_iter()),
                "con_iter_slice" => drive(case, v.as_slice().con_iter()),
                "from" => drive(case, ConIterOfSlice::from(v.as_slice())),
                _ => drive(case, v.as_slice().into_con_iter()),
            };
            CALLER_PHASE.store(true, Ordering::SeqCst);
            drop(v);
            out
        }
        ("slice", "cloned") => {
            let v: Vec<E> = (0..len).map(E::new).collect();
            let out = drive(case, v.as_slice().into_con_iter().cloned());
            CALLER_PHASE.store(true, Ordering::SeqCst);
            drop(v);
            out
        }
        ("slice", "copied") => {
            let v: Vec<P> = (0..len).map(P::new).collect();
            drive(case, v.as_slice().into_con_iter().copied())
        }
        ("vec", _) => {
            // with spare capacity: length and capacity differ
            let mut v: Vec<E> = Vec::with_capacity(len as usize + 3);
            v.extend((0..len).map(E::new));
            match case.ctor.as_str() {
                "from" => drive(case, ConIterOfVec::from(v)),
                _ => drive(case, v.into_con_iter()),
            }
        }
        ("array", _) => array_case!(case, 0, 1, 2, 3, 4, 5, 6, 7, 8, 9, 10, 11, 12),
        ("range", _) => {
            let r = (env.start as usize)..(env.end as usize);
            match case.ctor.as_str() {
                "con_iter_range" => drive(case, r.con_iter()),
                "from" => drive(case, ConIterOfRange::from(r)),
                _ => drive(case, IntoConcurrentIter::into_con_iter(r)),
            }
        }
        ("iter", "none") => {
            if env.owning {
                let v: Vec<E> = (0..len).map(E::new).collect();
                drive(case, Probe { inner: v.into_iter(), hint }.into_con_iter())
            } else {
                drive(case, Probe { inner: (0..len).map(P::new), hint }.into_con_iter())
            }
        }
        ("iter", "cloned") => {
            let v: Vec<E> = (0..len).map(E::new).collect();
            let out = drive(case, Probe { inner: v.iter(), hint }.into_con_iter().cloned());
            CALLER_PHASE.store(true, Ordering::SeqCst);
            drop(v);
            out
        }
        ("iter", "copied") => {
            let v: Vec<P> = (0..len).map(P::new).collect();
            drive(case, Probe { inner: v.iter(), hint }.into_con_iter().copied())
        }
        (k, a) => vec![format!("case {}", case.id), format!("unsupported kind {} {}", k, a), "end".into()],
    };
    CALLER_PHASE.store(false, Ordering::SeqCst);
    out
}

fn main() {
    std::panic::set_hook(Box::new(|_| {}));
    verif_shim::set_hooks(before, after);
    let stdin = std::io::stdin();
    let cases = read_cases(&mut stdin.lock());
    let stdout = std::io::stdout();
    let mut w = std::io::BufWriter::new(stdout.lock());
    for case in &cases {
        let reps = case.reps.max(1);
        let mut out = vec![];
        let mut mark = (0isize, 0isize);
        for rep in 0..reps {
            drop(std::mem::take(&mut out));
            if rep == 1 {
                // everything that is initialised lazily has been initialised by the first repetition
                mark = counting::settled();
            }
            out = run_case(case);
        }
        for l in &out {
            writeln!(w, "{}", l).unwrap();
        }
        drop(out);
        w.flush().unwrap();
        if reps >= 2 {
            let now = counting::settled();
            writeln!(w, "alloc {} reps={} growth_bytes={} growth_blocks={}", case.id, reps, now.0 - mark.0, now.1 - mark.1).unwrap();
            w.flush().unwrap();
        }
    }
}
